"""C11 — images are returned and written byte-identical, and referenced in place."""
from props import _pkg

run, search, replay = _pkg.make(
    "C11", "eval_images",
    ("docgen packages rich in pictures (drawing and VML markup, in every content part, unreferenced, dangling and "
     "external relationships; payloads empty, 1 B..3 kB, zip-header and XML look-alikes) x image folder absent / "
     "existing / not-yet-existing nested path / given at construction; oracle: images and save_images equal the "
     "archive's bytes per image relationship base name, the folder is created and holds exactly those files with "
     "those bytes, nothing else is written; the mapping is compared with Content.images; non-trivial = has an "
     "image part; distinct = package bytes"),
    "Content.images <-> DocxContent.images",
    lambda fs: "has_images" in fs,
    100, 4000)
