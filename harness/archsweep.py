"""Archive-level sweeps: saving (C16) and search-and-replace (C17).

The written archive is observed member by member and compared with the
model's description (kind 8 / 9): copied members must be byte- and
ZipInfo-identical to the input member the model names, rewritten members must
parse to the tree the model predicts."""
from __future__ import annotations

import hashlib
import io
import os
import random
import shutil
import tempfile
import warnings
import zipfile

from lxml import etree

import common
import engine

common.assert_repo_under_test()
import docgen  # noqa: E402
import impl_pkg  # noqa: E402
from diff_parts import first_diff  # noqa: E402
from diff_pkg import canon  # noqa: E402


def zip_members(data: bytes):
    z = zipfile.ZipFile(io.BytesIO(data))
    return [(i, z.read(i)) for i in z.infolist()]


def info_key(i: zipfile.ZipInfo):
    # zipfile.writestr normalises external_attr and flag bits; the property is about bytes
    return (i.filename, i.compress_type, i.date_time)


def norm_tree(t):
    """serialisation cannot tell text "" from no text"""
    if t[0] == 0:
        return [0, [] if t[1] == [[]] else t[1]]
    return [1, t[1], t[2], t[3], [] if t[4] == [[]] else t[4], [] if t[5] == [[]] else t[5],
            [norm_tree(k) for k in t[6]]]


def compare_written(model_out, in_members, out_members, intern):
    """model_out: [0, [[name, [0, idx] | [1, tree]]...]] ; returns None or a message"""
    if model_out[0] != 0:
        return f"model raised {model_out[1]}"
    ml = model_out[1]
    if len(ml) != len(out_members):
        return f"member count: written {len(out_members)} model {len(ml)}"
    for k, ((name, desc), (info, blob)) in enumerate(zip(ml, out_members)):
        if common.unS(name) != info.filename:
            return f"member {k}: name {info.filename!r} vs model {common.unS(name)!r}"
        if desc[0] == 0:
            src_info, src_blob = in_members[desc[1]]
            if blob != src_blob:
                return f"member {info.filename}: bytes differ from input member {desc[1]}"
            if info_key(info) != info_key(src_info):
                return f"member {info.filename}: ZipInfo differs from the input's"
        else:
            try:
                tree = common.enc_tree(etree.fromstring(blob), intern)
            except etree.XMLSyntaxError as ex:
                return f"member {info.filename}: not well-formed: {ex}"
            if norm_tree(tree) != norm_tree(desc[1]):
                d = first_diff(norm_tree(tree), norm_tree(desc[1]))
                return f"member {info.filename}: tree differs from the model's at {d[0] if d else None}"
    return None


def extract_all(data: bytes, html: bool, dup: bool):
    case, payloads = impl_pkg.model_case(data, html, dup)
    return canon(impl_pkg.observe(data, html, dup, payloads)), case, payloads


def reencode(data: bytes, rng: random.Random) -> bytes:
    """the same archive with some XML members re-serialised in another character encoding"""
    zin = zipfile.ZipFile(io.BytesIO(data))
    bio = io.BytesIO()
    with zipfile.ZipFile(bio, "w") as zout:
        for info in zin.infolist():
            blob = zin.read(info)
            if info.filename.endswith((".xml", ".rels")) and info.filename != "[Content_Types].xml" and rng.random() < 0.5:
                try:
                    root = etree.fromstring(blob)
                    enc = rng.choice(["UTF-16", "UTF-16", "ISO-8859-1", None])
                    blob = etree.tostring(root, xml_declaration=True, encoding=enc) if enc else etree.tostring(root)
                except (etree.XMLSyntaxError, UnicodeEncodeError, ValueError):
                    pass
            zout.writestr(info, blob)
    return bio.getvalue()


def eval_save(state, arg):
    """C16"""
    stream, sub = arg
    rng = random.Random(sub)
    if stream == "corpus":
        data = open(sub, "rb").read()
        feats = {"corpus"}
    else:
        kn = docgen.Knobs()
        pkg = docgen.gen_package(random.Random(sub), kn)
        data = pkg.to_bytes()
        feats = set(pkg.features)
        if rng.random() < 0.25:
            # parts stored in another encoding (UTF-16 with BOM and declaration, ISO-8859-1, no
            # declaration): what save() writes must still be a readable archive that extracts the
            # same (round-6 seed C16-declaration-with-source-encoding)
            data = reencode(data, rng)
            feats.add("parts_reencoded")
    res = {"stream": stream, "sub": sub, "features": sorted(feats), "fails": [], "corr": None,
           "key": hashlib.sha256(data).hexdigest()[:16]}
    html = bool(rng.getrandbits(1)) if stream != "corpus" else False
    tmp = tempfile.mkdtemp(prefix="d2p_c16_")
    try:
        from docx2python.docx_reader import DocxReader

        src = os.path.join(tmp, "in.docx")
        open(src, "wb").write(data)
        out1 = os.path.join(tmp, "out1.docx")
        out2 = os.path.join(tmp, "out2.docx")
        with warnings.catch_warnings():
            warnings.simplefilter("ignore")
            before = extract_all(data, html, True)[0]
            if any(t[0] != 0 for t in before[1]) or before[0][0] != 0:
                res["features"].append("unreadable")
                return res
            if rng.random() < 0.4:
                # the usual route: an extraction object whose attributes have been read (comments, core
                # properties, text: this parses non-content parts too) and whose reader is then saved -
                # nothing was edited, so every non-content member must still be copied byte for byte
                # (round-7 seed C16-loaded-noncontent-parts-rewritten)
                from docx2python import docx2python
                res["features"].append("read_before_save")
                dd = docx2python(src, html=html)
                try:
                    _ = (dd.comments, dd.core_properties, dd.text)
                    dd.docx_reader.save(out1)
                finally:
                    dd.close()
            else:
                reader = DocxReader(src, html=html)
                try:
                    reader.save(out1)
                finally:
                    reader.close()
            saved = open(out1, "rb").read()
            in_members = zip_members(data)
            out_members = zip_members(saved)
            # ---- correspondence with the model's description of the written archive
            if state["model"] is not None:
                case, payloads = impl_pkg.model_case(data, html, True)
                intern = common.Interner()
                # same interning as the case: re-lift to rebuild the table in order
                case2, _ = impl_pkg.model_case(data, html, True)
                m = state["model"].run([8, 1 if html else 0, 1, case[3]])
                intern = _interner_for(data)
                msg = compare_written(m, in_members, out_members, intern)
                if msg:
                    res["corr"] = {"what": msg}
            # ---- direct oracles
            in_names = [i.filename for i, _ in in_members]
            out_names = [i.filename for i, _ in out_members]
            if sorted(in_names) != sorted(out_names):
                extra = sorted(set(out_names) - set(in_names))
                dup_names = sorted({n for n in out_names if out_names.count(n) > in_names.count(n)})
                res["fails"].append(["same_members", f"member names differ: extra={extra[:3]} repeated={dup_names[:3]}"])
            rd = DocxReader(io.BytesIO(data))
            try:
                rewritten = {f.path for f in rd.files if f.Type in
                             ("officeDocument", "header", "footer", "footnotes", "endnotes", "relationships")}
            finally:
                rd.close()
            in_map = {i.filename: b for i, b in in_members}
            for info, blob in out_members:
                if info.filename not in rewritten and in_map.get(info.filename) != blob:
                    res["fails"].append(["untouched_members", f"{info.filename} is not byte-identical"])
                    break
            if open(src, "rb").read() != data:
                res["fails"].append(["input_untouched", "the input file was modified"])
            for dup in (True, False):
                a = extract_all(data, html, dup)[0]
                b = extract_all(saved, html, dup)[0]
                if _strip_elem(a) != _strip_elem(b):
                    d = first_diff(_strip_elem(a), _strip_elem(b))
                    res["fails"].append(["reextract", f"extraction of the saved file differs at {d[0] if d else None}"])
                    break
            reader = DocxReader(out1, html=html)
            try:
                reader.save(out2)
            finally:
                reader.close()
            again = zip_members(open(out2, "rb").read())
            m1 = {i.filename: b for i, b in out_members}
            for info, blob in again:
                if info.filename in rewritten and not info.filename.endswith(".rels"):
                    if _tree(blob) != _tree(m1.get(info.filename, b"<x/>")):
                        res["fails"].append(["save_idempotent", f"{info.filename} changes when the saved file is saved again"])
                        break
            # ---- edits are carried over
            reader = DocxReader(io.BytesIO(data), html=html)
            try:
                edited = {}
                for f in reader.files_of_type():
                    root = f.root_element
                    texts = [e for e in root.iter() if isinstance(e.tag, str) and e.tag.endswith("}t")]
                    for e in rng.sample(texts, min(2, len(texts))):
                        e.text = (e.text or "") + rng.choice(["", " EDIT", "<&>", "é"])
                    rels = f.rels_element
                    if rels is not None and len(rels) and rng.random() < 0.5:
                        tgt = [x for x in rels if x.get("TargetMode") == "External"]
                        if tgt:
                            tgt[0].set("Target", "http://edited.example/")
                    edited[f.path] = etree.tostring(root)
                out3 = os.path.join(tmp, "out3.docx")
                reader.save(out3)
            finally:
                reader.close()
            m3 = {i.filename: b for i, b in zip_members(open(out3, "rb").read())}
            for path, blob in edited.items():
                if _tree(m3.get(path, b"<x/>")) != _tree(blob):
                    res["fails"].append(["edits_saved", f"{path}: saved content is not the edited tree"])
                    break
    except Exception as ex:  # noqa: BLE001
        import traceback
        res["fails"].append(["save_raised", f"{type(ex).__name__}: {ex} {traceback.format_exc()[-300:]}"])
    finally:
        shutil.rmtree(tmp, ignore_errors=True)
    return res


# ---------------------------------------------------------------- relationships edited through the reader
def _flat_runs(x):
    out = []

    def go(v):
        if isinstance(v, str):
            out.append(v)
        else:
            for y in v:
                go(y)
    go(x)
    return out


def eval_retarget(state, arg):
    """C10 / C16: a hyperlink relationship is re-pointed through File.rels_element (the live XML that save()
    writes), possibly after File.rels was read.  Then (a) rendering the part shows the relationship's target AS
    IT IS NOW: it equals what a fresh reader makes of the same package with that relationship changed on disk
    (C10: TARGET is that relationship's target); (b) the reader is saved, and saving the saved file again
    reproduces the content part (C16).  (round-8 seeds C10-rels-cache-stale-after-edit, C16-rels-cache-merge-stale)"""
    stream, sub = arg
    rng = random.Random(sub)
    kn = docgen.Knobs(links=0.6, link_rid_reused=0.2) if hasattr(docgen.Knobs, "link_rid_reused") else docgen.Knobs(links=0.6)
    pkg = docgen.gen_package(random.Random(sub), kn)
    pair = None
    if rng.random() < 0.5 and "word/_rels/document.xml.rels" in pkg.rels:
        # two ADJACENT hyperlinks with relationships of their own and different targets (they stay apart);
        # re-pointing one to the other's target makes them one link for every later reading of the part
        doc = pkg.parts["word/document.xml"]
        body = [e for e in doc if isinstance(e.tag, str) and e.tag.endswith("}body")]
        if body:
            W, R = docgen.NS_T["w"], docgen.NS_T["r"]
            par = etree.Element(f"{{{W}}}p", nsmap={"w": W, "r": R})
            pair = ("rIdAdjA", "rIdAdjB")
            for rid, txt, tgt in ((pair[0], "one", "http://adjacent.example/a"), (pair[1], "two", "http://adjacent.example/b")):
                h = etree.SubElement(par, f"{{{W}}}hyperlink", {f"{{{R}}}id": rid})
                t = etree.SubElement(etree.SubElement(h, f"{{{W}}}r"), f"{{{W}}}t")
                t.text = txt
                pkg.rels["word/_rels/document.xml.rels"].append((rid, docgen.REL_T + "hyperlink", tgt, True))
            body[0].insert(rng.randint(0, len([e for e in body[0] if isinstance(e.tag, str) and e.tag.endswith("}p")])), par)
            pkg.features.add("adjacent_links_two_rels")
    data = pkg.to_bytes()
    res = {"stream": stream, "sub": sub, "features": sorted(set(pkg.features)), "fails": [], "corr": None,
           "key": hashlib.sha256(data).hexdigest()[:16]}
    html = bool(rng.getrandbits(1))
    tmp = tempfile.mkdtemp(prefix="d2p_ret_")
    try:
        from docx2python.docx_reader import DocxReader
        with warnings.catch_warnings():
            warnings.simplefilter("ignore")
            rd = DocxReader(io.BytesIO(data), html=html)
            try:
                cands = []
                try:
                    files = rd.files_of_type()
                except Exception:  # noqa: BLE001
                    res["features"].append("unreadable")
                    return res
                for f in files:
                    rels = f.rels_element
                    if rels is None:
                        continue
                    ext = [x for x in rels if isinstance(x.tag, str) and x.get("TargetMode") == "External"
                           and str(x.get("Type", "")).endswith("/hyperlink")]
                    if ext:
                        cands.append((f, ext))
                if not cands:
                    res["features"].append("no_external_link")
                    return res
                f, ext = rng.choice(cands)
                if pair is not None and rng.random() < 0.8:
                    dd = [c for c in cands if c[0].path == "word/document.xml"]
                    if dd:
                        f, ext = dd[0]
                if rng.random() < 0.6:
                    res["features"].append("rels_read_first")
                    _ = f.rels
                loaded_before = rng.random() < 0.4
                targets = [x.get("Target") for x in ext]
                rel = rng.choice(ext)
                if loaded_before:
                    # the part is already merged under the old targets: only re-point a relationship whose old
                    # target no other relationship shares, to a fresh one (which links merge cannot change)
                    res["features"].append("edit_after_load")
                    try:
                        _ = f.root_element
                    except Exception:  # noqa: BLE001
                        res["features"].append("unreadable")
                        return res
                    # (an EMPTY target makes the link merge like an unresolved one - known deviation of the merge
                    # key - so re-pointing it would change what merges as well)
                    uniq = [x for x in ext if targets.count(x.get("Target")) == 1 and x.get("Target")]
                    if not uniq:
                        res["features"].append("no_unique_target")
                        return res
                    rel = rng.choice(uniq)
                    new = "http://retargeted.example/%d" % rng.randrange(10**6)
                elif pair is not None and f.path == "word/document.xml" and rng.random() < 0.7:
                    res["features"].append("retarget_adjacent_pair")
                    a, b = [next(x for x in ext if x.get("Id") == i) for i in pair]
                    rel, new = (a, b.get("Target")) if rng.random() < 0.5 else (b, a.get("Target"))
                elif len(ext) >= 2 and rng.random() < 0.6:
                    res["features"].append("retarget_to_shared")
                    new = rng.choice([x for x in ext if x is not rel]).get("Target")
                else:
                    new = "http://retargeted.example/%d" % rng.randrange(10**6)
                rid = rel.get("Id")
                rel.set("Target", new)
                try:
                    got = _flat_runs(f.get_text(f.root_element))
                except Exception as ex:  # noqa: BLE001
                    res["features"].append("unreadable")
                    return res
                # the same package with that relationship changed on disk, read afresh
                dirname, _, filename = f.path.rpartition("/")
                rels_path = "/".join([x for x in (dirname, "_rels", filename + ".rels") if x])
                zin = zipfile.ZipFile(io.BytesIO(data))
                bio = io.BytesIO()
                hit = False
                with zipfile.ZipFile(bio, "w") as zout:
                    for info in zin.infolist():
                        blob = zin.read(info)
                        if info.filename == rels_path:
                            r0 = etree.fromstring(blob)
                            for x in r0:
                                if isinstance(x.tag, str) and x.get("Id") == rid and x.get("TargetMode") == "External":
                                    x.set("Target", new)
                                    hit = True
                            blob = etree.tostring(r0, xml_declaration=True, encoding="UTF-8", standalone=True)
                        zout.writestr(info, blob)
                if not hit:
                    res["features"].append("rels_member_not_found")
                    return res
                rd2 = DocxReader(io.BytesIO(bio.getvalue()), html=html)
                try:
                    f2 = [x for x in rd2.files_of_type() if x.path == f.path][0]
                    exp = _flat_runs(f2.get_text(f2.root_element))
                finally:
                    rd2.close()
                res["features"].append("retargeted")
                if got != exp:
                    d = next((i for i, (a, b) in enumerate(zip(got, exp)) if a != b), min(len(got), len(exp)))
                    res["fails"].append(["retarget_render",
                                         f"{f.path}: after re-pointing {rid} to {new!r} the part renders run {d} as "
                                         f"{(got[d] if d < len(got) else None)!r}; a fresh reader of the same package "
                                         f"gives {(exp[d] if d < len(exp) else None)!r}"])
                out1, out2 = os.path.join(tmp, "o1.docx"), os.path.join(tmp, "o2.docx")
                rd.save(out1)
            finally:
                rd.close()
            rd3 = DocxReader(out1, html=html)
            try:
                rd3.save(out2)
            finally:
                rd3.close()
            m1 = {i.filename: b for i, b in zip_members(open(out1, "rb").read())}
            m2 = {i.filename: b for i, b in zip_members(open(out2, "rb").read())}
            if _tree(m1.get(f.path, b"<x/>")) != _tree(m2.get(f.path, b"<y/>")):
                res["fails"].append(["retarget_resave", f"{f.path} changes when the file saved after re-pointing {rid} "
                                                        "is saved again"])
    except Exception as ex:  # noqa: BLE001
        import traceback
        res["fails"].append(["retarget_raised", f"{type(ex).__name__}: {ex} {traceback.format_exc()[-300:]}"])
    finally:
        shutil.rmtree(tmp, ignore_errors=True)
    return res


def _tree(blob: bytes):
    try:
        return common.enc_tree(etree.fromstring(blob))
    except etree.XMLSyntaxError:
        return None


def _strip_elem(obs):
    return obs


def _interner_for(data: bytes):
    """the interner in the state it has after lifting `data` (deterministic)"""
    z = zipfile.ZipFile(io.BytesIO(data))
    intern = common.Interner()
    for info in z.infolist():
        if info.filename.endswith((".xml", ".rels")):
            try:
                common.lift(etree.fromstring(z.read(info)), intern)
            except etree.XMLSyntaxError:
                pass
    return intern


# ---------------------------------------------------------------- C17
def stretches(root):
    """texts of the w:t nodes of a merged content part"""
    return [e.text for e in root.iter() if isinstance(e.tag, str) and e.tag.endswith("}t") and e.text]


MARKER_ALPHABET = set('<a href="#"></a>----footnote endnote) Image alt text---->< media/image .png .jpeg .emf .wmf '
                      'mailto: https://example.com same x@y.z a.b/c?d=e&f=g &amp;&lt;&gt; \t\n--')


def eval_replace(state, arg):
    stream, sub, edge = arg
    rng = random.Random(sub)
    kn = docgen.Knobs(nested_pars=0.0, forms=0.0, math=0.0)
    pkg = docgen.gen_package(random.Random(sub), kn)
    data = pkg.to_bytes()
    feats = set(pkg.features)
    res = {"stream": stream, "sub": sub, "features": sorted(feats), "fails": [], "corr": None,
           "key": hashlib.sha256(data).hexdigest()[:16]}
    html = rng.random() < 0.3
    tmp = tempfile.mkdtemp(prefix="d2p_c17_")
    try:
        from docx2python import docx2python
        from docx2python.docx_reader import DocxReader
        from docx2python.utilities import replace_docx_text

        with warnings.catch_warnings():
            warnings.simplefilter("ignore")
            rd = DocxReader(io.BytesIO(data), html=html)
            try:
                try:
                    all_st = [s for f in rd.files_of_type() for s in stretches(f.root_element)]
                    # text the extraction does not show: deleted text, field codes
                    inv_st = [e.text for f in rd.files_of_type() for e in f.root_element.iter()
                              if isinstance(e.tag, str) and e.tag.endswith(("}delText", "}instrText")) and e.text]
                except Exception:  # noqa: BLE001
                    res["features"].append("unreadable")
                    return res
            finally:
                rd.close()
            focus = []
            if state["model"] is not None:
                # the literal stretches are those of the MODEL's merged tree (Save.save, the html
                # flag decides what merges), not of the library's own: a change of /repo that merges
                # less must still be asked to replace across the boundary it introduced (round-5
                # seed C17-merge-key-raw-properties)
                case_m, _ = impl_pkg.model_case(data, html, True)
                sv = state["model"].run([8, 1 if html else 0, 1, case_m[3]])
                if sv[0] == 0:
                    def texts(t, acc):
                        if t[0] == 1:
                            if common.unS(t[2]) == "t" and t[4]:
                                acc.append(common.unS(t[4][0]))
                            for k in t[6]:
                                texts(k, acc)
                        return acc
                    m_st = []
                    for nm, d in sv[1]:
                        if d[0] == 1:
                            texts(d[1], m_st)
                    m_st = [x for x in m_st if x]
                    if m_st:
                        # stretches the model has and the library has not (none on the unchanged
                        # tree): the search is biased towards them
                        have = set(all_st)
                        focus = [x for x in m_st if x not in have]
                        all_st = m_st
                        feats.add("stretches_from_model")
            pairs = []
            for _ in range(rng.choice([1, 1, 2, 3])):
                if all_st and rng.random() < 0.85:
                    s = rng.choice(focus) if focus and rng.random() < 0.7 else rng.choice(all_st)
                    if rng.random() < (0.5 if s in focus else 0.25):
                        old = s                      # the needle is the whole stretch
                    else:
                        i = rng.randrange(len(s))
                        j = rng.randint(i + 1, len(s))
                        old = s[i:j]
                else:
                    old = rng.choice(["zzzz", "not there", "@@"])
                new = rng.choice(["", "X", "new text", "a\nb", "1\n2\n3", "<&>", old + old, "é",
                                  "C:\\dir\\1", "\\g<0>\\n", "a\u2028b", "x\u0085y"])   # literal backslashes: the replacement is text, not a template; U+2028 / U+0085 are characters, not line breaks
                if all_st and rng.random() < 0.3:
                    # a short needle that occurs in SEVERAL text nodes (often of one merged run, with a
                    # tab or break between them), replaced by several lines: each hit turns into several
                    # nodes, which moves the positions of the later hits (round-6 seed
                    # C17-replace-index-enumerate-snapshot)
                    for _try in range(12):
                        st = rng.choice(all_st)
                        a = rng.randrange(len(st))
                        sub_ = st[a:a + rng.choice([1, 1, 2, 3])]
                        # ... and that cannot occur in a generated marker, label or link target (those are
                        # not literal text: a needle occurring there puts the case outside the domain)
                        if sub_ and sum(x.count(sub_) for x in all_st) >= 2 and not any(
                                ch in MARKER_ALPHABET or ch.isdigit() for ch in sub_):
                            old = sub_
                            new = rng.choice(["a\nb", "1\n2\n3", "a\nb", "X"])
                            break
                if all_st and inv_st and rng.random() < 0.35:
                    # a needle from a visible stretch that ALSO occurs in text the extraction does not show (deleted
                    # text, a field code), replaced by several lines: nothing may change where the text is not
                    # shown - a break put there would be extracted as a newline (D33)
                    for _try in range(20):
                        st = rng.choice(all_st)
                        a = rng.randrange(len(st))
                        sub_ = st[a:a + rng.choice([1, 2, 3])]
                        if sub_ and any(sub_ in x for x in inv_st):
                            old = sub_
                            new = rng.choice(["a\nb", "1\n2\n3", "x\n"])
                            feats.add("needle_in_invisible_text")
                            break
                if edge == "needle_in_comment":
                    old = "\ue000"
                    feats.add("needle_in_comment")
                if edge == "trailing_newline":
                    new = rng.choice(["x\n", "\n"])
                    feats.add("trailing_newline")
                pairs.append((old, new))
            res["features"] = sorted(feats)
            src = os.path.join(tmp, "in.docx")
            out = os.path.join(tmp, "out.docx")
            open(src, "wb").write(data)
            before = docx2python(src, html=html)
            try:
                b_runs = before.document_runs
                b_img = before.images
            finally:
                before.close()
            replace_docx_text(src, out, *pairs, html=html)
            saved = open(out, "rb").read()
            after = docx2python(out, html=html)
            try:
                a_runs = after.document_runs
                a_img = after.images
            finally:
                after.close()
            in_members = zip_members(data)
            out_members = zip_members(saved)
            if state["model"] is not None:
                case, _ = impl_pkg.model_case(data, html, True)
                m = state["model"].run([9, 1 if html else 0, case[3],
                                        [[common.S(a), common.S(b)] for a, b in pairs]])
                msg = compare_written(m, in_members, out_members, _interner_for(data))
                if msg:
                    res["corr"] = {"what": msg, "pairs": pairs}
            # ---- oracle: extraction commutes with replacement, stretch by stretch.
            # expected: apply the pairs in order to every run string that is pure literal
            # text; domain clause: the needle must not also occur across a stretch boundary
            # html on: tags may come and go with emptied runs; the property is about the text,
            # so both sides are compared after stripping formatting tags and unescaping
            import oracles

            def plain(p):
                return oracles.strip_html(p) if html else p

            def apply(s):
                for old, new in pairs:
                    s = s.replace(old, new)
                return s
            in_domain = True
            bp = [plain("".join(p)) for t in b_runs for r in t for c in r for p in c]
            ap = [plain("".join(p)) for t in a_runs for r in t for c in r for p in c]
            joined_st = "\x00".join(all_st)
            cur = joined_st
            cur_pars = list(bp)
            for old, new in pairs:
                # a carriage return becomes a line feed (proved: only \r needs excluding), control characters are
                # not XML; U+0085 / U+2028 / U+2029 are ordinary characters since the D19 repair and stay in the domain
                if any(ch in "\r\x0b\x0c\x1c\x1d\x1e" for ch in new):
                    in_domain = False
                n_stretch = cur.count(old)
                n_text = sum(p.count(old) for p in cur_pars)
                if n_text != n_stretch:
                    in_domain = False  # the needle also occurs across a boundary / in a marker
                if old and any(sum(1 for i in range(len(p)) if p.startswith(old, i)) != p.count(old) for p in cur_pars):
                    # occurrences of the needle OVERLAP in some paragraph ("  " in "   "): which of them a
                    # left-to-right replacement takes depends on where the text nodes are cut, so the same
                    # number of hits does not mean the same hits - outside "inside one stretch"
                    in_domain = False
                cur = cur.replace(old, new)
                cur_pars = [p.replace(old, new) for p in cur_pars]
            if not in_domain:
                res["features"].append("outside_domain")
            else:
                res["features"].append("replace_in_domain")
                exp = [apply(p) for p in bp]
                if len(ap) != len(bp):
                    res["fails"].append(["replace_commutes", f"paragraph count changed {len(bp)} -> {len(ap)}"])
                elif exp != ap:
                    k = next(i for i in range(len(ap)) if exp[i] != ap[i])
                    res["fails"].append(["replace_commutes",
                                         f"pairs={pairs!r}: expected {exp[k][:80]!r} got {ap[k][:80]!r} (was {bp[k][:80]!r})"])
            if a_img != b_img:
                res["fails"].append(["replace_frame", "images changed"])
            rewritten = {n for n, d in ((common.unS(x[0]), x[1]) for x in (m[1] if state["model"] is not None and m[0] == 0 else [])) if d[0] == 1}
            in_map = {i.filename: b for i, b in in_members}
            if rewritten:
                for info, blob in out_members:
                    if info.filename not in rewritten and in_map.get(info.filename) != blob:
                        res["fails"].append(["replace_frame", f"{info.filename} is not byte-identical"])
                        break
    except Exception as ex:  # noqa: BLE001
        import traceback
        res["fails"].append(["replace_raised", f"{type(ex).__name__}: {ex} {traceback.format_exc()[-300:]}"])
    finally:
        shutil.rmtree(tmp, ignore_errors=True)
    return res


# ---------------------------------------------------------------- summary
def summarise(ctx, results, rule, corr_label, nontrivial):
    prop = ctx["prop"]
    known = [f for f in ctx["findings"] if f.get("status") == "known"]
    violations, corr, hits = [], [], {}
    feats, streams, keys = {}, {}, set()
    herr = [r for r in results if "harness_error" in r]
    for r in results:
        if "harness_error" in r:
            continue
        streams[r["stream"]] = streams.get(r["stream"], 0) + 1
        for f in r["features"]:
            feats[f] = feats.get(f, 0) + 1
        if nontrivial(set(r["features"])):
            keys.add(r["key"])
        if r["corr"]:
            rec = {"correspondence": corr_label, "stream": r["stream"], "seed": r["sub"], **r["corr"]}
            if r["stream"].startswith("edge"):
                pass
            corr.append(rec)
        for name, msg in r["fails"]:
            explained = None
            for f in known:
                if name in f.get("oracles", [name]) and set(f.get("features", [])) & set(r["features"]):
                    explained = f
            if explained:
                hits[explained["id"]] = explained
            else:
                violations.append({"what": f"{name}: {msg}", "stream": r["stream"], "seed": r["sub"],
                                   "arg": r.get("arg"), "features": r["features"]})
    if herr:
        corr.append({"correspondence": "harness error", "detail": herr[0]})
    xc = [tuple(r["_xcheck"]) for r in results if isinstance(r, dict) and r.get("_xcheck")]
    return {
        "_xcheck": xc,
        "evaluations": len(results), "distinct_nontrivial": len(keys), "rule": rule,
        "samples": [{"stream": r["stream"], "seed": r["sub"], "features": r["features"][:10]}
                    for r in results if "harness_error" not in r][:3],
        "feature_histogram": feats, "stream_histogram": streams,
        "known_findings_reproduced": sorted(hits),
        "violations": violations, "corr_broken": corr,
        "known": [(k, v["what"]) for k, v in sorted(hits.items())],
    }


def eval_save_nomodel(state, arg):
    return eval_save({"model": None}, arg)


def eval_replace_nomodel(state, arg):
    return eval_replace({"model": None}, arg)
