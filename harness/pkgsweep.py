"""Package-level sweeps: layouts (C09), images on disk (C11), serialisation
variants (C18)."""
from __future__ import annotations

import copy
import hashlib
import io
import os
import random
import shutil
import tempfile
import warnings
import zipfile

from lxml import etree

import common
import engine

common.assert_repo_under_test()
import docgen  # noqa: E402
import impl_pkg  # noqa: E402
from common import REL_T  # noqa: E402
from diff_parts import first_diff  # noqa: E402
from diff_pkg import canon  # noqa: E402

OPTS = [(False, True), (True, True)]


def observe_all(data, model, opts=OPTS, image_folder=None):
    """[(impl, model)] for the option settings"""
    out = []
    case0, payloads = impl_pkg.model_case(data, False, True)
    for html, dup in opts:
        impl = canon(impl_pkg.observe(data, html, dup, payloads, image_folder))
        mod = None
        if model is not None:
            mod = canon(impl_pkg.model_images_to_keys(
                model.run([5, 1 if html else 0, 1 if dup else 0, case0[3]]), payloads))
        out.append((impl, mod))
    return out


def content_only(obs):
    """everything but the file list (paths differ between layouts)"""
    def par(x):
        if x[0] == 0:
            return [0, [par(y) for y in x[1]]]
        return [1, x[1]]
    img = obs[4] if obs[4][0] != 0 else [0, sorted(obs[4][1])]     # a mapping: order is immaterial
    return [obs[1], obs[2], obs[3], img, obs[5]]


# ------------------------------------------------------------------ C09
def relayout(pkg: docgen.Pkg, rng: random.Random, mode: str | None = None) -> docgen.Pkg:
    """rename parts and relocate them at or below the referring part's directory;
    relative or package-absolute targets; reuse relationship ids across parts"""
    new = docgen.Pkg()
    new.binaries = dict(pkg.binaries)
    new.features = set(pkg.features)
    base = rng.choice(["word", "content", "a/b", "w0rd/sub.dir"])
    if mode == "dotdir":
        base = ".hidden"        # D14: a top-level directory starting with '.'
    if mode == "samedir":
        base = "word"           # D14: parts in word/word/, referenced relatively as word/<leaf>
    rename = {}
    # one renaming per kind of part, so that the path order among parts of one kind
    # (which decides the order of their content) is preserved
    styles = {}

    def kind_of(leaf):
        low = leaf.lower()
        if "header" in low:
            return "header"
        if "footer" in low:
            return "footer"
        return "".join(c for c in leaf[:-4] if not c.isdigit())

    # every part under the same leaf name in a directory of its own (round-5 seed
    # C09-rels-index-by-basename: relationships files that differ only in their directory)
    samename = mode is None and rng.random() < 0.3
    for name in pkg.parts:
        if not name.startswith("word/") or name in ("word/numbering.xml",):
            rename[name] = name
            continue
        leaf = name[5:]
        if samename and leaf != "styles.xml":
            rename[name] = f"{base}/{leaf[:-4]}/part.xml"
            continue
        k = kind_of(leaf)
        if k not in styles:
            styles[k] = rng.choice(["same", "suffix", "prefix", "subdir", "upper", "dirprefix", "dirprefix_sub", "percent"]) \
                if leaf != "styles.xml" else "same"
        stem = leaf[:-4]
        last = base.rsplit("/", 1)[-1]
        # dirprefix: the name (or a sub-directory) STARTS WITH the directory's own name as characters
        # without being that path component (word/wordmark_header.xml, word/wordart/footer1.xml):
        # round-6 seed C09-path-startswith-dirname
        leaf = {"same": leaf, "suffix": stem + "_x.xml", "prefix": "p_" + leaf, "subdir": "sub/" + leaf,
                "upper": stem.upper() + ".xml", "dirprefix": last + "mark_" + leaf,
                "dirprefix_sub": last + "art/" + leaf,
                # a literal percent escape in the member name and in the target (the name of the member
                # IS "x%20y.xml": nothing is to be decoded; round-7 seed C09-unquote-percent-encoded-targets)
                "percent": stem + "%20v%C3%A9.xml"}[styles[k]]
        rename[name] = f"{base}/{leaf}"
        if mode == "samedir" and name != "word/document.xml":
            rename[name] = f"word/word/{leaf}"
    for name, root in pkg.parts.items():
        new.parts[rename[name]] = root
    doc_new = rename["word/document.xml"]
    doc_dir = os.path.dirname(doc_new)

    def target_for(src_part_new: str, old_target_abs: str) -> str:
        tgt_new = rename.get(old_target_abs, old_target_abs)
        src_dir = os.path.dirname(src_part_new)
        if (rng.random() < 0.35 and mode != "samedir") or not tgt_new.startswith(src_dir + "/"):
            return "/" + tgt_new
        rel = tgt_new[len(src_dir) + 1:]
        # a relative target must not itself start with the segments of the directory (D14)
        if rel.split("/")[: len(src_dir.split("/"))] == src_dir.split("/"):
            return rel if mode == "samedir" else "/" + tgt_new
        return rel

    for rels_name, rows in pkg.rels.items():
        if rels_name == "_rels/.rels":
            out_rows = []
            for rid, typ, tgt, ext in rows:
                out_rows.append((rid, typ, rename.get(tgt, tgt) if not ext else tgt, ext))
            new.rels["_rels/.rels"] = out_rows
            continue
        # word/_rels/<part>.rels -> <dir of new part>/_rels/<leaf>.rels
        old_part = "word/" + rels_name[len("word/_rels/"):-5]
        new_part = rename.get(old_part, old_part)
        nd, leaf = os.path.split(new_part)
        out_rows = []
        ids = {}
        for k, (rid, typ, tgt, ext) in enumerate(rows):
            ids[rid] = rid
            if ext:
                out_rows.append((rid, typ, tgt, ext))
            elif tgt.startswith(("media/", "media2/")) and ("word/" + tgt) in new.binaries:
                # the picture moves along with the part that refers to it, so the target
                # (which is what the text placeholder shows) stays textually the same
                new.binaries[f"{nd}/{tgt}"] = new.binaries.pop("word/" + tgt)
                out_rows.append((rid, typ, tgt, ext))
            else:
                old_abs = tgt if tgt.startswith("/") else "word/" + tgt
                out_rows.append((rid, typ, target_for(new_part, old_abs.lstrip("/")), ext))
        new.rels[f"{nd}/_rels/{leaf}.rels"] = out_rows
    new.features.add("relayout")
    if samename:
        new.features.add("layout_same_leaf_names")
    return new


def eval_layout(state, arg):
    stream, sub = arg
    rng = random.Random(sub)
    kn = docgen.Knobs(max_blocks=4)
    pkg = docgen.gen_package(random.Random(sub), kn)
    res = {"stream": stream, "sub": sub, "features": sorted(pkg.features), "fails": [], "corr": None, "key": None}
    data0 = pkg.to_bytes()
    res["key"] = hashlib.sha256(data0).hexdigest()[:16]
    with warnings.catch_warnings():
        warnings.simplefilter("ignore")
        base = observe_all(data0, state["model"])
        if any(o[0][0][0] != 0 or any(t[0] != 0 for t in o[0][1]) for o in base):
            res["features"].append("unreadable")
            return res
        mode = stream[5:] if stream.startswith("edge:") else None
        if mode:
            res["features"].append("layout_" + mode)
        for k in range(2):
            p2 = relayout(pkg, rng, mode)
            data = p2.to_bytes()
            obs = observe_all(data, state["model"])
            for (impl, mod), (bimpl, _), (html, dup) in zip(obs, base, OPTS):
                if mod is not None and impl != mod and res["corr"] is None:
                    d = first_diff(impl, mod)
                    res["corr"] = {"what": f"layout variant {k} html={html}: differs at {d[0] if d else None}",
                                   "impl": repr(d[1])[:200] if d else None, "model": repr(d[2])[:200] if d else None}
                if content_only(impl) != content_only(bimpl):
                    d = first_diff(content_only(impl), content_only(bimpl))
                    names = sorted(p2.parts)
                    res["fails"].append(["layout_invariance",
                                         f"relocated/renamed package {names[:6]} extracts differently (html={html}) at {d[0] if d else None}"])
                    return res
        res["features"].append("relayout")
    return res


# ------------------------------------------------------------------ C11
def snapshot_fs(top: str):
    """(directories, {file path: bytes}) below top, as absolute paths"""
    dirs, files = [], {}
    for d, _sub, fnames in os.walk(top):
        dirs.append(d)
        for n in fnames:
            files[os.path.join(d, n)] = open(os.path.join(d, n), "rb").read()
    return sorted(dirs), files


def fs_corr(model, data, top, folder, before, after):
    """Fs.pull_image_files (model/Fs.v) <-> what /repo wrote below the scratch directory"""
    case0, payloads = impl_pkg.model_case(data, False, True)
    segs = lambda p: [common.S(x) for x in p.strip("/").split("/")]  # noqa: E731
    anc = []
    cur = top
    while cur not in ("/", ""):
        cur = os.path.dirname(cur)
        if cur not in ("/", ""):
            anc.append(cur)
    ids = {}                      # bytes -> id (payload ids first, then fresh ones for stale files)

    def bid(blob):
        for i, pl in enumerate(payloads):
            if pl == blob:
                return i
        return ids.setdefault(blob, 100000 + len(ids))
    dirs0, files0 = before
    case = [13, case0[3], [segs(folder)] if folder is not None else [],
            [segs(d) for d in sorted(anc) + dirs0], [[segs(p), bid(b)] for p, b in sorted(files0.items())]]
    out = model.run(case)
    if out[0] != 0:
        return {"what": "Fs.pull_image_files raised in the model", "model": repr(out)[:200]}
    fs_after = out[1][1]
    if not fs_after:
        return {"what": "Fs.pull_image_files: the model predicts an OSError, /repo wrote the images", "model": repr(out)[:200]}
    key = lambda i: impl_pkg.blob_key(payloads[i]) if i < len(payloads) else ("stale", i)  # noqa: E731
    m_dirs = sorted("/" + "/".join(common.unS(x) for x in d) for d in fs_after[0][0])
    m_files = {"/" + "/".join(common.unS(x) for x in p): key(i) for p, i in fs_after[0][1]}
    dirs1, files1 = after
    r_files = {p: key(bid(b)) for p, b in files1.items()}
    r_dirs = sorted(set(dirs1) | set(anc))
    if m_dirs != r_dirs:
        return {"what": "directories after save_images differ from Fs.pull_image_files",
                "impl": repr(sorted(set(r_dirs) - set(m_dirs)))[:200], "model": repr(sorted(set(m_dirs) - set(r_dirs)))[:200]}
    if m_files != r_files:
        return {"what": "files after save_images differ from Fs.pull_image_files",
                "impl": repr(sorted(r_files.items()))[:300], "model": repr(sorted(m_files.items()))[:300]}
    return None


def picture_markers_oracle(data: bytes):
    """C11, on /repo's output alone: the picture markers ----TARGET---- found in the text are exactly
    those of the pictures whose r:embed / r:id resolves IN THE PART'S OWN relationships file
    (duplicate_merged_cells=False, so that no cell content is copied or overwritten)."""
    import re

    from docx2python import docx2python
    from docx2python.docx_reader import DocxReader
    from lxml import etree

    z = zipfile.ZipFile(io.BytesIO(data))
    names = set(z.namelist())

    def own_rels(path):
        d, _, leaf = path.rpartition("/")
        rp = (d + "/" if d else "") + "_rels/" + leaf + ".rels"
        out = {}
        if rp in names:
            for r in etree.fromstring(z.read(rp)):
                if isinstance(r.tag, str):
                    out[r.get("Id")] = (r.get("Type", "").rsplit("/", 1)[-1], r.get("Target"))
        return out

    all_targets = set()
    for n in names:
        if n.endswith(".rels"):
            for r in etree.fromstring(z.read(n)):
                if isinstance(r.tag, str) and r.get("Type", "").endswith("/image"):
                    all_targets.add(r.get("Target"))
    rd = DocxReader(io.BytesIO(data))
    try:
        parts = [f.path for t in ("officeDocument", "header", "footer", "footnotes", "endnotes")
                 for f in rd.files_of_type(t)]
    finally:
        rd.close()
    expected = set()
    for path in parts:
        if path not in names:
            continue
        rels = own_rels(path)
        root = etree.fromstring(z.read(path))
        for el in root.iter():
            if not isinstance(el.tag, str):
                continue
            q = etree.QName(el)
            rid = None
            if q.localname == "blip":
                rid = next((v for k, v in el.attrib.items() if k.endswith("}embed")), None)
            elif q.localname == "imagedata":
                rid = next((v for k, v in el.attrib.items() if k.endswith("}id")), None)
            if rid is not None and rid in rels:
                expected.add(rels[rid][1])
    d = docx2python(io.BytesIO(data), duplicate_merged_cells=False)
    try:
        text = d.text
    finally:
        d.close()
    seen = {m for m in re.findall(r"----(.+?)----", text) if m in all_targets}
    extra = seen - expected
    if extra:
        return f"picture markers {sorted(extra)} appear although no picture of a content part resolves to them in its own relationships"
    return None


def eval_images(state, arg):
    stream, sub = arg
    rng = random.Random(sub)
    kn = docgen.Knobs(images=0.6, max_blocks=4, image_same_basename=0.05, bare_picture_part=0.15)
    pkg = docgen.gen_package(random.Random(sub), kn)
    data = pkg.to_bytes()
    res = {"stream": stream, "sub": sub, "features": sorted(pkg.features), "fails": [], "corr": None,
           "key": hashlib.sha256(data).hexdigest()[:16]}
    tmp = tempfile.mkdtemp(prefix="d2p_c11_")
    try:
        from docx2python import docx2python

        with warnings.catch_warnings():
            warnings.simplefilter("ignore")
            (impl, mod), = observe_all(data, state["model"], [(False, True)])
            if mod is not None and impl[4] != mod[4]:
                res["corr"] = {"what": "images mapping differs", "impl": repr(impl[4])[:200], "model": repr(mod[4])[:200]}
            elif mod is not None and content_only(impl) != content_only(mod):
                # the picture markers in the text (C11: referenced in place, unresolved pictures skipped)
                res["corr"] = {"what": "extracted content of a picture-rich package differs from the model's",
                               "impl": repr(content_only(impl))[:200], "model": repr(content_only(mod))[:200]}
            bad = picture_markers_oracle(data)
            if bad:
                res["fails"].append(["pictures_in_place", bad])
            # expected mapping from the archive itself
            z = zipfile.ZipFile(io.BytesIO(data))
            from docx2python.docx_reader import DocxReader

            rd = DocxReader(io.BytesIO(data))
            try:
                exp = {}
                for f in rd.files_of_type("image"):
                    if f.path in z.namelist():
                        exp[os.path.basename(f.Target)] = z.read(f.path)
            finally:
                rd.close()
            kind = rng.choice(["absent", "existing", "nested", "ctor"])
            folder = {"absent": None, "existing": os.path.join(tmp, "e"),
                      "nested": os.path.join(tmp, "n1", "n2", "n3"), "ctor": os.path.join(tmp, "c", "d")}[kind]
            if kind == "existing":
                os.mkdir(folder)
                # stale files of the same names: same size / other size, other bytes
                for n, blob in exp.items():
                    if rng.random() < 0.7:
                        stale = bytes((b + 1) % 256 for b in blob) if rng.random() < 0.6 else blob + b"x"
                        open(os.path.join(folder, n), "wb").write(stale)
                        res["features"].append("stale_file")
            res["features"].append("folder:" + kind)
            before = set(os.listdir(tmp))
            fs_before = snapshot_fs(tmp)
            if kind == "ctor":
                d = docx2python(io.BytesIO(data), folder)
            else:
                d = docx2python(io.BytesIO(data))
            try:
                got = d.images
                if got != exp:
                    res["fails"].append(["images_bytes", f"images has {sorted(got)} expected {sorted(exp)} or bytes differ"])
                elif got and rng.random() < 0.6:
                    # the caller changes the mapping it was handed (drops an entry, replaces bytes): the next request -
                    # images again, or save_images below - still gives exactly the archive's pictures
                    # (round-9 seed C11-images-dict-cached-and-returned)
                    res["features"].append("returned_mapping_mutated")
                    k0 = sorted(got)[0]
                    if rng.random() < 0.5:
                        del got[k0]
                    else:
                        got[k0] = b"changed by the caller"
                    again = d.images
                    if again != exp:
                        res["fails"].append(["images_bytes", "after the caller changed the returned mapping, images no longer "
                                             f"gives the archive's pictures: {sorted(again)} expected {sorted(exp)} or bytes differ"])
                if folder is not None and kind != "ctor":
                    got2 = d.save_images(folder)
                    if got2 != exp:
                        res["fails"].append(["images_bytes", "save_images returns a different mapping"])
                text = d.text
            finally:
                d.close()
            if folder is not None:
                if exp or kind != "ctor" or os.path.isdir(folder):
                    if not os.path.isdir(folder):
                        res["fails"].append(["images_written", "image folder was not created"])
                    else:
                        listing = sorted(os.listdir(folder))
                        if listing != sorted(exp):
                            res["fails"].append(["images_written", f"folder holds {listing}, expected {sorted(exp)}"])
                        for n in listing:
                            if n in exp and open(os.path.join(folder, n), "rb").read() != exp[n]:
                                res["fails"].append(["images_written", f"{n} written with different bytes"])
            if state.get("model") is not None and res["corr"] is None:
                res["corr"] = fs_corr(state["model"], data, tmp, folder, fs_before, snapshot_fs(tmp))
            stray = set(os.listdir(tmp)) - before - {"e", "n1", "c"}
            if stray:
                res["fails"].append(["images_written", f"unexpected files written: {sorted(stray)}"])
            # referenced in place
            for f_name, root in pkg.parts.items():
                pass
            if exp:
                res["features"].append("has_images")
    except Exception as ex:  # noqa: BLE001
        import traceback
        res["fails"].append(["images_raised", f"{type(ex).__name__}: {ex} {traceback.format_exc()[-300:]}"])
    finally:
        shutil.rmtree(tmp, ignore_errors=True)
    return res


# ------------------------------------------------------------------ C18
def shuffle_attrs(root, rng):
    for e in root.iter():
        if isinstance(e.tag, str) and len(e.attrib) > 1:
            items = list(e.attrib.items())
            rng.shuffle(items)
            for k, _ in items:
                del e.attrib[k]
            for k, v in items:
                e.set(k, v)


def add_trivia(root, rng):
    """whitespace and XML comments between elements, outside text and equation content"""
    skip = {"t", "delText", "instrText"}
    for e in list(root.iter()):
        if not isinstance(e.tag, str):
            continue
        q = etree.QName(e)
        if q.localname in skip or q.localname == "oMath" or any(
                isinstance(a.tag, str) and etree.QName(a).localname in ("oMath", "oMathPara") for a in e.iterancestors()):
            continue
        if len(e) and rng.random() < 0.3:
            if e.text is None:
                e.text = "\n  "
            for k in e:
                if isinstance(k.tag, str) and etree.QName(k).localname not in skip and k.tail is None and rng.random() < 0.5:
                    k.tail = "\n "
            if rng.random() < 0.3:
                e.insert(rng.randint(0, len(e)), etree.Comment(" between "))


def localize_ns(el, keep=("w",)):
    """the same tree with every namespace other than `keep` declared locally, on each element
    that uses it in its tag or attributes, instead of at the root"""
    if not isinstance(el.tag, str):
        return copy.deepcopy(el)
    used = {etree.QName(el).namespace} | {etree.QName(k).namespace for k in el.attrib}
    nsmap = {p: u for p, u in el.nsmap.items() if p is not None and (p in keep or u in used)}
    if None in el.nsmap and el.nsmap[None] in used:
        nsmap[None] = el.nsmap[None]
    new = etree.Element(el.tag, nsmap=nsmap)
    for k, v in el.attrib.items():
        new.set(k, v)
    new.text, new.tail = el.text, el.tail
    for k in el:
        new.append(localize_ns(k, keep))
    return new


def variant(pkg: docgen.Pkg, rng: random.Random, what: set) -> bytes:
    members = {}
    for name, root in pkg.parts.items():
        r2 = copy.deepcopy(root)
        if "nslocal" in what and name.startswith("word/"):
            r2 = localize_ns(r2)
        if "attrs" in what:
            shuffle_attrs(r2, rng)
        if "trivia" in what and name.startswith("word/") and name not in ("word/numbering.xml", "word/styles.xml"):
            add_trivia(r2, rng)
        if "encoding" in what and rng.random() < 0.7:
            blob = etree.tostring(r2, xml_declaration=True, encoding=rng.choice(["UTF-16", "utf-8", "ISO-8859-1", "us-ascii"]))
        elif "encoding" in what:
            blob = etree.tostring(r2)  # no declaration
        else:
            blob = etree.tostring(r2, xml_declaration=True, encoding="UTF-8", standalone=True)
        members[name] = blob
    base = pkg.members()
    for name, blob in base.items():
        members.setdefault(name, blob)
    names = list(members)
    if "archive" in what:
        rng.shuffle(names)
        members["unrelated/readme.txt"] = b"hello"
        names.insert(rng.randint(0, len(names)), "unrelated/readme.txt")
    bio = io.BytesIO()
    with zipfile.ZipFile(bio, "w") as z:
        for n in names:
            info = zipfile.ZipInfo(n, date_time=(rng.randint(1981, 2030), 1, 2, 3, 4, 6) if "archive" in what else (1980, 1, 1, 0, 0, 0))
            info.compress_type = rng.choice([zipfile.ZIP_STORED, zipfile.ZIP_DEFLATED]) if "archive" in what else zipfile.ZIP_DEFLATED
            z.writestr(info, members[n])
    return bio.getvalue()


def strict_rels(pkg: docgen.Pkg):
    p = copy.copy(pkg)
    p.rels = {k: [(rid, typ.replace(REL_T, common.REL_S), tgt, ext) for rid, typ, tgt, ext in rows]
              for k, rows in pkg.rels.items()}
    return p


def eval_serial(state, arg):
    stream, sub = arg
    rng = random.Random(sub)
    kn = docgen.Knobs(max_blocks=4, xml_trivia=0.0)
    pkg = docgen.gen_package(random.Random(sub), kn)
    data0 = pkg.to_bytes()
    res = {"stream": stream, "sub": sub, "features": sorted(pkg.features), "fails": [], "corr": None,
           "key": hashlib.sha256(data0).hexdigest()[:16]}
    with warnings.catch_warnings():
        warnings.simplefilter("ignore")
        base = observe_all(data0, state["model"])
        if any(o[0][0][0] != 0 or any(t[0] != 0 for t in o[0][1]) for o in base):
            res["features"].append("unreadable")
            return res
        variants = []
        # the same document with strict (ISO) namespace URIs and relationship types
        pkg_s = strict_rels(docgen.gen_package(random.Random(sub), kn, ns=common.NS_S))
        variants.append(("strict", pkg_s.to_bytes()))
        for what in ({"attrs"}, {"trivia"}, {"encoding"}, {"archive"}, {"nslocal"},
                     {"attrs", "trivia", "encoding", "archive", "nslocal"}):
            variants.append(("+".join(sorted(what)), variant(pkg, rng, what)))
        for name, data in variants:
            obs = observe_all(data, state["model"])
            for (impl, mod), (bimpl, _), (html, dup) in zip(obs, base, OPTS):
                if mod is not None and impl != mod and res["corr"] is None:
                    d = first_diff(impl, mod)
                    res["corr"] = {"what": f"variant {name} html={html}: differs at {d[0] if d else None}",
                                   "impl": repr(d[1])[:200] if d else None, "model": repr(d[2])[:200] if d else None}
                a, b = strip_paths(content_only(impl), name), strip_paths(content_only(bimpl), name)
                if a != b:
                    d = first_diff(a, b)
                    res["fails"].append(["serialisation_invariance",
                                         f"variant '{name}' extracts differently (html={html}) at {d[0] if d else None}: "
                                         f"{repr(d[1])[:80] if d else ''} vs {repr(d[2])[:80] if d else ''}"])
                    return res
            res["features"].append("variant:" + name)
    return res


def strip_paths(obs, name):
    """element paths move when comments are inserted between siblings"""
    if "trivia" not in name:
        return obs

    def par(x):
        if x[0] == 0:
            return [0, [par(y) for y in x[1]]]
        return [1, x[1][:5] + [bool(x[1][5])]]
    return [[([0, [par(t[1][0]), t[1][1], t[1][2]]] if t[0] == 0 else t) for t in obs[0]]] + obs[1:]


def nomodel(fn):
    def f(state, arg):
        return fn({"model": None}, arg)
    return f


eval_layout_nomodel = nomodel(eval_layout)
eval_images_nomodel = nomodel(eval_images)
eval_serial_nomodel = nomodel(eval_serial)
