"""Generic package-level sweep used by the document-walk properties.

For every generated package and every option setting of the property:
  * /repo is run through the public API            (impl_pkg.observe)
  * the extracted Coq model is run on the same bytes (kind-5 case)
  * the property's projection of both is compared   (correspondence)
  * the property's direct oracles are evaluated on /repo's own values
Streams: `main` (ingredients inside every theorem's hypotheses), `edge:<knob>`
(one deviant ingredient switched on: reproduces known findings, measures model
drift outside the proven domain), `corpus` (real-world files).
"""
from __future__ import annotations

import dataclasses
import glob
import hashlib
import io
import json
import os
import random
from dataclasses import dataclass, field
from typing import Callable

import common
import engine

common.assert_repo_under_test()
import docgen  # noqa: E402
import impl_pkg  # noqa: E402
from diff_pkg import canon  # noqa: E402
from diff_parts import first_diff  # noqa: E402

ALL_OPTS = [(False, True), (False, False), (True, True), (True, False)]
EDGE_KNOBS = [f.name for f in dataclasses.fields(docgen.Knobs)
              if f.type == "float" and f.default == 0.0]


@dataclass
class Spec:
    prop: str
    rule: str
    opts: list = field(default_factory=lambda: list(ALL_OPTS))
    knobs: dict = field(default_factory=dict)          # overrides for the main stream
    edge: list = field(default_factory=list)            # knobs explored in the edge stream
    project: Callable | None = None                     # obs -> comparable projection
    oracle: Callable | None = None                      # (ctx) -> list[(oracle_name, message)]
    nontrivial: Callable | None = None                  # (features) -> bool
    n_quick: int = 150
    n_thorough: int = 4000
    corpus: bool = True
    edge_in_domain: bool = False                        # C13: the edge stream is inside the quantifier
    image_folder: bool = False
    part_level: bool = False                             # also compare each part's MERGED element tree with the model
    extra_corr: Callable | None = None                   # (model, data, archive_case) -> corr dict | None


SPECS: dict[str, Spec] = {}


def register(spec: Spec):
    SPECS[spec.prop] = spec
    return spec


# ---------------------------------------------------------------- decoding
def un_nested(x, leaf):
    """[0,[...]] / [1,leaf] -> python nested lists"""
    if x[0] == 0:
        return [un_nested(y, leaf) for y in x[1]]
    return leaf(x[1])


def un_par(rec):
    return {
        "runs": [common.unS(r) for r in rec[0]],
        "html_style": [common.unS(r) for r in rec[1]],
        "style": common.unS(rec[2]),
        "lineage": tuple(common.unOS(x) for x in rec[3]),
        "list_position": (common.unOS(rec[4][0]), list(rec[4][1])),
        "elem": None if not rec[5] else ("copy" if rec[5][0] == 1 else tuple(rec[5][1])),
    }


class Obs:
    """decoded observation (either side)"""

    def __init__(self, raw):
        self.raw = raw
        self.files = raw[0]
        self.types = {}
        for ty, t in zip(impl_pkg.PART_ORDER, raw[1]):
            if t[0] == 0:
                self.types[ty] = {
                    "pars": un_nested(t[1][0], un_par),
                    "runs": un_nested(t[1][1], common.unS),
                    "plain": un_nested(t[1][2], common.unS),
                }
            else:
                self.types[ty] = {"exc": t[1]}
        self.text = common.unS(raw[2][1]) if raw[2][0] == 0 else {"exc": raw[2][1]}
        self.core = raw[3]
        self.images = raw[4]
        self.comments = raw[5]

    def any_exc(self):
        out = []
        for i, part in enumerate(self.raw):
            if i == 1:
                for ty, t in zip(impl_pkg.PART_ORDER, part):
                    if t[0] != 0:
                        out.append((ty, t[1]))
            elif part[0] != 0:
                out.append((["files", "", "text", "core_properties", "images", "comments"][i], part[1]))
        return out


def shape_of(x):
    if isinstance(x, list):
        return [shape_of(y) for y in x]
    return type(x).__name__ if not isinstance(x, dict) else "Par"


def iter_pars(nested, depth=4, addr=()):
    if depth == 0:
        yield addr, nested
        return
    if isinstance(nested, list):
        for i, x in enumerate(nested):
            yield from iter_pars(x, depth - 1, addr + (i,))


# ---------------------------------------------------------------- worker
def knobs_for(spec: Spec, stream: str) -> docgen.Knobs:
    kn = docgen.Knobs()
    for k, v in spec.knobs.items():
        setattr(kn, k, v)
    if stream.startswith("edge:"):
        setattr(kn, stream[5:], 0.5)
    return kn


def scan_features(data: bytes) -> set:
    """ingredient features read off the package itself (used for corpus files and to
    complement the generator's own tags)"""
    import zipfile
    from lxml import etree
    out = set()
    try:
        z = zipfile.ZipFile(io.BytesIO(data))
    except Exception:  # noqa: BLE001
        return out
    for name in z.namelist():
        if not (name.startswith("word/") and name.endswith(".xml")):
            continue
        try:
            root = etree.fromstring(z.read(name))
        except etree.XMLSyntaxError:
            continue
        w = root.nsmap.get("w")
        if not w:
            continue
        q = lambda t: f"{{{w}}}{t}"  # noqa: E731
        if root.find(f".//{q('pPr')}/{q('tabs')}/{q('tab')}") is not None:
            out.add("tabstops_in_ppr")
        for tbl in root.iter(q("tbl")):
            out.add("table")
            for tc in tbl.iter(q("tc")):
                if tc.find(f".//{q('tbl')}") is not None:
                    out.add("nested_table")
                if tc.find(f".//{q('sdt')}") is not None:
                    out.add("sdt_in_table")
                if tc.find(f".//{q('p')}//{q('p')}") is not None:
                    out.add("nested_par_in_table")
            for tr in tbl.iter(q("tr")):
                if any(etree.QName(k).localname == "sdt" for k in tr if isinstance(k.tag, str)):
                    out.add("sdt_in_table")
            if any(etree.QName(k).localname == "sdt" for k in tbl if isinstance(k.tag, str)):
                out.add("sdt_in_table")
        if root.find(f".//{q('p')}//{q('p')}") is not None:
            out.add("nested_par")
        if root.find(f".//{q('commentRangeStart')}") is not None:
            out.add("comment_range")
    return out


def part_level_corr(model, data):
    """merged element tree, record tree, comment ranges of every content part: model vs /repo"""
    import warnings
    from lxml import etree
    import impl_part
    from diff_parts import canon as canon_part
    from docx2python.docx_reader import DocxReader
    with warnings.catch_warnings():
        warnings.simplefilter("ignore")
        for html in (False, True):
            reader = DocxReader(io.BytesIO(data), html=html)
            try:
                try:
                    files = reader.files_of_type()
                except Exception:  # noqa: BLE001
                    return None
                for f in files:
                    intern = common.Interner()
                    try:
                        raw = etree.fromstring(reader.zipf.read(f.path))
                        case = impl_part.model_case_for_file(reader, f, raw, intern)
                    except Exception:  # noqa: BLE001
                        continue
                    r = impl_part.observe_file(f, intern)
                    if isinstance(r, tuple):
                        r = r[0]
                    m = model.run(case)
                    if canon_part(r) != canon_part(m):
                        d = first_diff(canon_part(r), canon_part(m))
                        what = "merged element tree" if d and d[0][:2] == (1, 0) else "part observation"
                        return {"opts": [html, True], "part": f.path, "what": what, "at": list(d[0]) if d else None,
                                "impl": repr(d[1])[:200] if d else None, "model": repr(d[2])[:200] if d else None}
                    # partial extraction: File.get_content(elem) / get_text(elem) from an element of the
                    # merged tree (a fresh collector walked from there) against Driver.observe_part_at
                    try:
                        root = f.root_element
                    except Exception:  # noqa: BLE001
                        continue
                    elems = [e for e in root.iter() if isinstance(e.tag, str) and e is not root
                             and etree.QName(e).localname in ("p", "tbl", "tc", "r", "hyperlink", "sdt")]
                    rng = random.Random(len(elems) * 7919 + (1 if html else 0))
                    for e in rng.sample(elems, min(2, len(elems))):
                        pth = impl_part.elem_path(e, root)[1]
                        from depth_collector_shim import canon_partial, partial_obs
                        ri = canon_partial(partial_obs(f, e, root))
                        mi = canon_partial(model.run([12] + case[1:] + [pth]))
                        if ri != mi:
                            dd = first_diff(ri, mi)
                            return {"opts": [html, True], "part": f.path, "what": f"File.get_content(elem) at path {pth}",
                                    "at": list(dd[0]) if dd else None,
                                    "impl": repr(dd[1])[:200] if dd else None, "model": repr(dd[2])[:200] if dd else None}
            finally:
                reader.close()
    return None


def eval_case(state, arg):
    prop, stream, sub = arg
    spec = SPECS[prop]
    res = {"stream": stream, "sub": sub, "features": [], "key": None, "corr": None, "fails": [],
           "exc": 0}
    if stream == "corpus":
        data = open(sub, "rb").read()
        feats = {"corpus"}
        pkg = None
    else:
        pkg = docgen.gen_package(random.Random(sub), knobs_for(spec, stream))
        data = pkg.to_bytes()
        feats = set(pkg.features)
    feats |= scan_features(data)
    res["key"] = hashlib.sha256(data).hexdigest()[:16] if stream == "corpus" else _pkg_key(pkg)
    per = {}
    case0, payloads = impl_pkg.model_case(data, False, True)
    for html, dup in spec.opts:
        case = [5, 1 if html else 0, 1 if dup else 0, case0[3]]
        impl_raw = canon(impl_pkg.observe(data, html, dup, payloads))
        if state["model"] is not None:
            mod_raw = canon(impl_pkg.model_images_to_keys(state["model"].run(case), payloads))
        else:
            mod_raw = None
        per[(html, dup)] = (impl_raw, mod_raw)
        if mod_raw is not None and res["corr"] is None:
            pi = spec.project(impl_raw) if spec.project else impl_raw
            pm = spec.project(mod_raw) if spec.project else mod_raw
            if pi != pm:
                d = first_diff(pi, pm)
                res["corr"] = {"opts": [html, dup], "at": list(d[0]) if d else None,
                               "impl": repr(d[1])[:300] if d else None,
                               "model": repr(d[2])[:300] if d else None}
    if spec.part_level and state["model"] is not None and res["corr"] is None:
        res["corr"] = part_level_corr(state["model"], data)
    if spec.extra_corr and state["model"] is not None and res["corr"] is None:
        res["corr"] = spec.extra_corr(state["model"], data, case0[3])
    ctx = {"pkg": pkg, "data": data, "per": {k: Obs(v[0]) for k, v in per.items()},
           "features": feats, "payloads": payloads, "stream": stream,
           "raw": {k: v[0] for k, v in per.items()}}
    res["exc"] = sum(1 for o in ctx["per"].values() if o.any_exc())
    if spec.oracle:
        try:
            res["fails"] = [list(x) for x in spec.oracle(ctx)]
        except Exception as ex:  # noqa: BLE001
            import traceback
            res["fails"] = [["oracle_crash", f"{type(ex).__name__}: {ex} {traceback.format_exc()[-400:]}"]]
    res["features"] = sorted(feats)
    return res


def utilities_corr(which):
    """correspondence of utilities.get_links / get_headings (Utilities.v) with /repo"""
    def corr(model, data, arch):
        import shutil
        import tempfile
        from docx2python.utilities import get_headings, get_links
        from impl_pkg import grab
        tmp = tempfile.mkdtemp(prefix="d2p_u_")
        try:
            pth = os.path.join(tmp, "a.docx")
            with open(pth, "wb") as fh:
                fh.write(data)
            import warnings
            with warnings.catch_warnings():
                warnings.simplefilter("ignore")
                impl = [grab(lambda: [[common.S(h), common.S(t)] for h, t in get_links(pth)]),
                        grab(lambda: [[common.S(r) for r in rs] for rs in get_headings(pth)])]
        finally:
            shutil.rmtree(tmp, ignore_errors=True)
        mod = model.run([10, arch])
        i = 0 if which == "links" else 1
        if impl[i] != mod[i]:
            return {"opts": [which == "headings", True], "what": f"utilities.get_{which}",
                    "impl": repr(impl[i])[:300], "model": repr(mod[i])[:300]}
        return None
    return corr


def _pkg_key(pkg) -> str:
    h = hashlib.sha256()
    for name, blob in sorted(pkg.members().items()):
        h.update(name.encode())
        h.update(blob)
    return h.hexdigest()[:16]


# ---------------------------------------------------------------- driver
def run(ctx):
    prop, tier, seed = ctx["prop"], ctx["tier"], ctx["seed"]
    spec = SPECS[prop]
    n = spec.n_quick if tier == "quick" else spec.n_thorough
    args = []
    # the stored witness of every listed known finding runs first
    for f in ctx["findings"]:
        w = f.get("witness")
        if f.get("status") == "known" and w and w.get("stream"):
            args.append((prop, w["stream"], w["seed"]))
    if spec.corpus:
        files = sorted(glob.glob(str(common.REPO / "tests/resources/*.docx")))
        files = [f for f in files if os.path.getsize(f) > 0]
        if tier == "quick":
            files = [f for f in files if os.path.getsize(f) < 60000]
        args += [(prop, "corpus", f) for f in files]
    args += [(prop, "main", engine.sub_seed(seed, i, prop)) for i in range(n)]
    n_edge = max(12, n // 12)
    for knob in spec.edge:
        args += [(prop, f"edge:{knob}", engine.sub_seed(seed, i, prop + knob)) for i in range(n_edge)]
    if not ctx["model_ok"]:
        return run_without_model(ctx, spec, args)
    results = engine.sweep("docsweep", "eval_case", args, chunksize=2)
    return summarise(ctx, spec, results)


class _NoModelState(dict):
    pass


def eval_case_nomodel(state, arg):
    return eval_case({"model": None}, arg)


def run_without_model(ctx, spec, args):
    results = engine.sweep("docsweep", "eval_case_nomodel", args, chunksize=2)
    return summarise(ctx, spec, results)


def summarise(ctx, spec, results):
    prop = ctx["prop"]
    findings = ctx["findings"]
    known_feats = {}
    for f in findings:
        if f.get("status") == "known":
            for feat in f.get("features", []):
                known_feats.setdefault(feat, []).append(f)
    violations, corr, known_hits = [], [], {}
    feats_hist, stream_hist, keys = {}, {}, set()
    drift = 0
    exc_cases = 0
    herr = []
    for r in results:
        if "harness_error" in r:
            herr.append(r)
            continue
        stream_hist[r["stream"]] = stream_hist.get(r["stream"], 0) + 1
        for f in r["features"]:
            feats_hist[f] = feats_hist.get(f, 0) + 1
        if r["exc"]:
            exc_cases += 1
        if (spec.nontrivial or (lambda fs: len(fs) >= 3))(set(r["features"])):
            keys.add(r["key"])
        in_domain = r["stream"] in ("main", "corpus") or spec.edge_in_domain
        if r["corr"]:
            rec = {"correspondence": f"Coq model (Driver.observe_package) <-> /repo public API, projection of {prop}",
                   "stream": r["stream"], "seed": r["sub"], **r["corr"]}
            # the model is faithful on the unusual ingredients too (it reproduces every known
            # finding): a disagreement in an edge stream is a broken correspondence as well
            corr.append(rec)
            if not in_domain:
                drift += 1
        for name, msg in r["fails"]:
            explained = None
            for feat in r["features"]:
                for f in known_feats.get(feat, []):
                    if name in f.get("oracles", [name]) and set(f.get("features_all", [])) <= set(r["features"]):
                        explained = f
            if explained is not None:
                known_hits.setdefault(explained["id"], explained)
            else:
                violations.append({"what": f"{name}: {msg}", "stream": r["stream"], "seed": r["sub"],
                                   "features": r["features"],
                                   "replay_cmd": f"./check {prop} --replay <this file>"})
    if herr:
        corr.append({"correspondence": "harness error", "detail": herr[0]})
    samples = [{"stream": r["stream"], "seed": r["sub"], "features": r["features"][:12]}
               for r in results if "harness_error" not in r][:3]
    xc = [tuple(r["_xcheck"]) for r in results if isinstance(r, dict) and r.get("_xcheck")]
    return {
        "_xcheck": xc,
        "evaluations": len(results) * len(spec.opts),
        "packages": len(results),
        "distinct_nontrivial": len(keys),
        "rule": spec.rule,
        "samples": samples,
        "feature_histogram": feats_hist,
        "stream_histogram": stream_hist,
        "cases_with_an_exception": exc_cases,
        "model_drift_outside_domain": drift,
        "known_findings_reproduced": sorted(known_hits),
        "violations": violations,
        "corr_broken": corr,
        "known": [(k, v["what"]) for k, v in sorted(known_hits.items())],
    }


def search(ctx, broken, corr_broken):
    """A proof obligation or the correspondence broke: look for an input on
    which the property itself fails on /repo (oracles only, x10 budget, starting
    with the disagreeing cases)."""
    prop = ctx["prop"]
    spec = SPECS[prop]
    args = []
    for c in corr_broken:
        if "seed" in c and "stream" in c:
            args.append((prop, c["stream"], c["seed"]))
    n = (spec.n_quick if ctx["tier"] == "quick" else spec.n_thorough) * (10 if ctx["tier"] == "quick" else 2)
    args += [(prop, "main", engine.sub_seed(ctx["seed"] + 1, i, prop)) for i in range(n)]
    results = engine.sweep("docsweep", "eval_case_nomodel", args, chunksize=4)
    out = summarise({**ctx}, spec, results)
    return out["violations"]


def replay(ctx, path):
    data = json.loads(open(path).read())
    prop = ctx["prop"]
    if "seed" not in data:
        print("replay file names no input:", data.get("note"))
        return 1
    r = eval_case({"model": None}, (prop, data["stream"], data["seed"]))
    bad = [f for f in r["fails"]]
    if bad:
        print(f"VIOLATION property={prop} replay={path}")
        for name, msg in bad[:5]:
            print("  ", name, msg)
        return 1
    print("replay passes")
    return 0
