"""Generators of abstract WordprocessingML packages.

Everything is derived from one random.Random.  A generated `Pkg` holds lxml
trees per part plus binary members; `Pkg.to_bytes(variant)` serialises it to a
.docx.  Each generated package carries a set of feature tags (what it
contains) used for hypothesis membership and for the evidence histograms.
"""
from __future__ import annotations

import io
import random
import zipfile
from dataclasses import dataclass, field

from lxml import etree

from common import NS_S, NS_T, REL_NS, REL_PKG, REL_T

CT_NS = "http://schemas.openxmlformats.org/package/2006/content-types"
CP_NS = "http://schemas.openxmlformats.org/package/2006/metadata/core-properties"
DC_NS = "http://purl.org/dc/elements/1.1/"
XML_NS = "http://www.w3.org/XML/1998/namespace"


@dataclass
class Knobs:
    """Probabilities / switches of optional and deviant ingredients."""

    # valid-but-unusual ingredients that are known deviations (see DESIGN 9);
    # off in the main stream, switched on one by one in the edge stream
    tabstops_in_ppr: float = 0.0  # D12
    toggle_off_values: float = 0.25  # D8 (fixed)
    valign_baseline: float = 0.3  # D9 (fixed)
    sym_without_char: float = 0.08  # D16
    alt_text_markup: float = 0.3  # D17 (fixed)
    math_markup: float = 0.3  # D22 (fixed)
    link_mixed_format: float = 0.15  # D7
    link_dangling: float = 0.08  # D6
    nested_tables: float = 0.0  # D10
    sdt_in_table: float = 0.0  # D21
    vmerge_continue_val: float = 0.3  # D5
    grid_before: float = 0.05  # D2
    grid_gaps: float = 0.0  # rows of a random table start / end with a grid gap (w:gridBefore / w:gridAfter); C19 sweep
    checkbox_onoff: float = 0.3  # D4
    ddlist_empty: float = 0.1  # D3
    ddlist_markup: float = 0.3  # D26 (fixed): drop-down entries with & < >
    no_r_namespace: float = 0.08  # D1
    local_ns: float = 0.1  # prefixes other than w / r are declared on the elements that use them, not on the root (python-docx style)
    bare_picture_part: float = 0.04  # a header / footer holding a picture element without any r: attribute, r undeclared
    start_zero: float = 0.1  # D13
    markers_in_link: float = 0.08  # D23
    comment_in_heading: float = 0.5  # D11
    adjacent_links_diff_anchor: float = 0.0  # D20
    xml_comment_in_props: float = 0.05  # comment inside rPr/pPr/tcPr
    empty_val: float = 0.04             # a run property whose w:val is the empty string
    cell_without_par: float = 0.0
    shared_part: float = 0.12  # one content part related twice (D18, fixed)
    textbox_in_link: float = 0.0  # D32: a text box anchored in a hyperlink's run
    num_dangling_abstract: float = 0.0  # a w:num pointing at an abstractNum that is not there (corrupt numbering part)
    glossary: float = 0.08  # a glossary document with its own numbering part (another `numbering` relationship)
    numbering_other_prefix: float = 0.0  # the numbering part binds the WordprocessingML namespace to another prefix (ns0:)
    nested_par_in_table: float = 0.0  # D27: text box inside a table cell
    nested_pars: float = 0.15  # text boxes
    # ordinary variety
    tables: float = 0.3
    merged_cells: float = 0.5
    lists: float = 0.3
    links: float = 0.25
    notes: float = 0.2
    images: float = 0.2
    image_same_basename: float = 0.0  # a second image part with the base name of an earlier one (C19, C11 sweeps)
    comments: float = 0.25
    forms: float = 0.1
    math: float = 0.1
    unknown_elems: float = 0.15
    xml_trivia: float = 0.1  # comments / PIs between elements
    headings: float = 0.2
    max_blocks: int = 6
    max_runs: int = 5
    wild: bool = False


TEXT_ATOMS = [
    "a", "b", "The", "quick", " ", "  ", "", "fox", "&", "<", ">", '"', "'", "&amp;",
    "&lt;b&gt;", "<b>", "</b>", "x<y", "1", "42", "é", "ß", "日本", "\U0001F600",
    " ", "tab", "--", "----", ")", "\t", "i", "v", "footnote1)", "a href",
]


def localize_ns(root, keep=("w", "r")):
    """the same tree with the namespace prefixes other than `keep` declared on the outermost elements that use
    them instead of on the root (what python-docx and hand-written producers do); prefixes stay the same
    (round-9 seed C02-content-qnames-from-root-nsmap)"""
    by_uri = {u: p for p, u in root.nsmap.items() if p}

    def needed(el, scope):
        out = {}
        names = [el.tag] + list(el.attrib)
        for n in names:
            if isinstance(n, str) and n.startswith("{"):
                u = n[1:].split("}")[0]
                if u in by_uri and by_uri[u] not in scope and u != "http://www.w3.org/XML/1998/namespace":
                    out[by_uri[u]] = u
        return out

    def copy(el, parent, scope):
        if not isinstance(el.tag, str):
            c = etree.Comment(el.text) if el.tag is etree.Comment else etree.ProcessingInstruction(el.target, el.text)
            c.tail = el.tail
            parent.append(c)
            return
        ns = needed(el, scope)
        new = etree.SubElement(parent, el.tag, dict(el.attrib), nsmap=ns) if parent is not None else None
        new.text, new.tail = el.text, el.tail
        for k in el:
            copy(k, new, scope | set(ns))

    top_ns = {p: u for p, u in root.nsmap.items() if p in keep}
    top_ns.update(needed(root, set(top_ns)))
    new_root = etree.Element(root.tag, dict(root.attrib), nsmap=top_ns)
    new_root.text = root.text
    for k in root:
        copy(k, new_root, set(top_ns))
    return new_root


class Gen:
    def __init__(self, rng: random.Random, knobs: Knobs | None = None, ns=None):
        self.r = rng
        self.k = knobs or Knobs()
        self.ns = dict(ns or NS_T)
        self.features: set[str] = set()
        self.rels: dict[str, list[tuple[str, str, str, bool]]] = {}
        self.cur_part = "document"
        self.rid_counter = 0
        self.rid_by_part: dict[str, int] = {}
        self.reserved: dict[str, set] = {}
        self.link_rids: dict[str, list] = {}
        self.comment_ids: list[str] = []
        self.note_refs: dict[str, list[str]] = {"footnote": [], "endnote": []}
        self.images: dict[str, bytes] = {}
        self.num_ids: list[str] = []
        self.depth = 0
        self.in_cell = 0

    # ------------------------------------------------------------ basics
    def p(self, prob: float) -> bool:
        return self.r.random() < prob

    def q(self, pfx: str, local: str) -> str:
        return f"{{{self.ns[pfx]}}}{local}"

    def E(self, tag: str, attrs: dict | None = None, *kids, text=None):
        pfx, local = tag.split(":")
        el = etree.Element(self.q(pfx, local), nsmap=None)
        for k, v in (attrs or {}).items():
            if ":" in k and not k.startswith("{"):
                ap, al = k.split(":")
                if ap == "xml":
                    el.set(f"{{{XML_NS}}}{al}", v)
                else:
                    el.set(self.q(ap, al), v)
            else:
                el.set(k, v)
        if text is not None:
            el.text = text
        for kid in kids:
            if kid is not None:
                el.append(kid)
        return el

    def text(self) -> str:
        n = self.r.choice([0, 1, 1, 2, 3, 5])
        return "".join(self.r.choice(TEXT_ATOMS) for _ in range(n)).replace("\t", " ")

    def feat(self, f: str):
        self.features.add(f)

    def new_rid(self) -> str:
        # relationship ids are unique per part only: every part starts again at rId1, so
        # the same id means different things in different parts
        n = self.rid_by_part.get(self.cur_part, 0) + 1
        while n in self.reserved.get(self.cur_part, ()):
            n += 1  # an id used as a dangling reference in this part stays undefined here
        self.rid_by_part[self.cur_part] = n
        return f"rId{n}"

    def dangling_doc_id(self) -> str:
        """an id this part never defines, but the main document's relationships usually do"""
        n = self.rid_by_part.get(self.cur_part, 0) + self.r.randint(1, 2)
        self.reserved.setdefault(self.cur_part, set()).add(n)
        return f"rId{n}"

    def add_rel(self, type_: str, target: str, external=False) -> str:
        rid = self.new_rid()
        self.rels.setdefault(self.cur_part, []).append((rid, REL_T + type_, target, external))
        return rid

    def trivia(self, parent):
        """XML comments / PIs between element children."""
        if not self.p(self.k.xml_trivia):
            return
        self.feat("xml_trivia")
        kids = list(parent)
        pos = self.r.randint(0, len(kids))
        # private-use characters: never part of a generated needle (C17)
        node = etree.Comment("\ue000") if self.p(0.7) else etree.ProcessingInstruction("pi", "\ue001")
        parent.insert(pos, node)

    # --------------------------------------------------------------- rPr
    def respell(self, pr):
        """the same recognised formatting spelled differently (w:b / w:b w:val="true" / "1" / "on";
        another underline style): such runs still merge (round-5 seed C17-merge-key-raw-properties)"""
        wv = self.q("w", "val")
        on = ["1", "true", "on"]
        for x in pr:
            if not isinstance(x.tag, str):
                continue
            loc = etree.QName(x).localname
            v = x.get(wv)
            if loc in ("b", "i", "strike", "smallCaps", "caps") and (v is None or v in on):
                choices = [c for c in [None] + on if c != v]
                nv = self.r.choice(choices)
                if nv is None:
                    del x.attrib[wv]
                else:
                    x.set(wv, nv)
                self.feat("fmt_respelled")
            elif loc == "u" and v in ("single", "double", "wave"):
                x.set(wv, self.r.choice([c for c in ("single", "double", "wave") if c != v]))
                self.feat("fmt_respelled")

    def rpr(self):
        if self.p(0.45):
            return None
        pr = self.E("w:rPr")
        props = []
        for name in ["b", "i", "u", "strike", "smallCaps", "caps"]:
            if self.p(0.2):
                attrs = {}
                if name == "u":
                    attrs = {"w:val": self.r.choice(["single", "double", "wave"])}
                elif self.p(0.3):
                    attrs = {"w:val": self.r.choice(["1", "true", "on"])}
                if self.p(self.k.toggle_off_values):
                    self.feat("toggle_off")
                    attrs = {"w:val": self.r.choice(["0", "false", "off"] if name != "u" else ["none"])}
                props.append(self.E(f"w:{name}", attrs))
                self.feat("fmt_" + name)
        if self.p(0.15):
            v = self.r.choice(["superscript", "subscript"])
            if self.p(self.k.valign_baseline):
                v = "baseline"
                self.feat("valign_baseline")
            props.append(self.E("w:vertAlign", {"w:val": v}))
            self.feat("fmt_vertAlign")
        if self.p(0.12):
            hv = self.r.choice(["yellow", "green"])
            if self.p(self.k.toggle_off_values):
                self.feat("toggle_off")
                hv = "none"
            props.append(self.E("w:highlight", {"w:val": hv}))
            self.feat("fmt_highlight")
        if self.p(0.12):
            props.append(self.E("w:sz", {"w:val": self.r.choice(["24", "32", "9"])}))
            self.feat("fmt_sz")
        if self.p(0.12):
            props.append(self.E("w:color", {"w:val": self.r.choice(["FF0000", "auto", "00B050", "000000", "0E1234"])}))
            self.feat("fmt_color")
        # unrecognised properties
        if self.p(0.3):
            props.append(self.E("w:rFonts", {"w:ascii": "Arial"}))
        if self.p(0.2):
            props.append(self.E("w:lang", {"w:val": "en-US"}))
        if self.p(0.2):
            props.append(self.E("w:szCs", {"w:val": "24"}))
        if self.p(0.1):
            props.append(self.E("w:bCs"))
        self.r.shuffle(props)
        for x in props:
            pr.append(x)
        if self.p(self.k.empty_val):
            # gather_Pr treats an empty w:val like a missing one.  Only w:lang (ST_Lang, a plain string)
            # may be empty in a schema-valid document: an empty w:val on vertAlign / sz / color ... is
            # outside every enumeration or number type (and makes html_close raise IndexError on an
            # empty style string), so it is not generated (C13 is about schema-valid packages)
            for x in props:
                if etree.QName(x).localname == "lang":
                    x.set(self.q("w", "val"), "")
                    self.feat("empty_val")
        if self.p(0.1):
            # tracked change of the run properties: the OLD properties are recorded inside w:rPrChange, last
            # child of w:rPr; they are not the run's formatting (round-9 seed C07-rpr-iter-into-rprchange)
            old = [self.E("w:b"), self.E("w:i"), self.E("w:u", {"w:val": "single"}), self.E("w:sz", {"w:val": "40"}),
                   self.E("w:color", {"w:val": "0000FF"}), self.E("w:strike"), self.E("w:b", {"w:val": "0"})]
            self.r.shuffle(old)
            pr.append(self.E("w:rPrChange", {"w:id": "12", "w:author": "a"}, self.E("w:rPr", {}, *old[:self.r.randint(1, 3)])))
            self.feat("rpr_change")
        if self.p(self.k.xml_comment_in_props):
            self.feat("xml_comment_in_props")
            pr.insert(self.r.randint(0, len(pr)), etree.Comment("x"))
        return pr

    # --------------------------------------------------- inline run content
    def run_items(self, allow_nested=True):
        items = []
        n = self.r.choice([1, 1, 1, 2, 3])
        for _ in range(n):
            c = self.r.random()
            if c < 0.62:
                t = self.text()
                attrs = {"xml:space": "preserve"} if (t != t.strip() or self.p(0.2)) else {}
                items.append(self.E("w:t", attrs, text=t if (t or self.p(0.5)) else None))
                self.feat("text")
            elif c < 0.68:
                items.append(self.E("w:tab"))
                self.feat("tab")
            elif c < 0.73:
                items.append(self.E("w:br", {"w:type": "page"} if self.p(0.2) else {}))
                self.feat("br")
            elif c < 0.76:
                attrs = {"w:font": self.r.choice(["Wingdings", "Symbol"]),
                         "w:char": self.r.choice(["F0FC", "F020", "00A9"])}
                if self.p(self.k.sym_without_char):
                    del attrs["w:char"]
                    self.feat("sym_without_char")
                if self.p(0.1):
                    del attrs["w:font"]
                items.append(self.E("w:sym", attrs))
                self.feat("sym")
            elif c < 0.78:
                items.append(self.E("w:noBreakHyphen"))
            elif c < 0.80:
                items.append(self.E("w:lastRenderedPageBreak"))
            elif c < 0.84 and self.p(self.k.notes * 3) and self.cur_part == "document":
                kind = self.r.choice(["footnote", "endnote"])
                nid = str(self.r.choice([1, 2, 3, 7, 12]) + len(self.note_refs[kind]) * 20)
                self.note_refs[kind].append(nid)
                items.append(self.E(f"w:{kind}Reference", {"w:id": nid}))
                self.feat("note_ref")
            elif c < 0.88 and self.p(self.k.images * 3):
                items.append(self.drawing())
            elif c < 0.90 and self.p(self.k.images * 3):
                items.append(self.pict())
            elif c < 0.93 and self.p(self.k.forms * 4):
                items.append(self.form_field())
            elif c < 0.97 and allow_nested and self.depth < 3 and self.p(self.k.nested_pars * 3 if self.depth == 0 else 0.9) and (
                self.in_cell == 0 or self.p(self.k.nested_par_in_table)
            ):
                if self.in_cell:
                    self.feat("nested_par_in_table")
                items.append(self.textbox())
            else:
                items.append(self.E("w:t", {}, text=self.text()))
                self.feat("text")
        return items

    def run(self, rpr=None, allow_nested=True):
        r = self.E("w:r", {"w:rsidR": "00AB12CD"} if self.p(0.2) else {})
        pr = rpr if rpr is not None else self.rpr()
        if pr is not None:
            r.append(pr)
        for it in self.run_items(allow_nested):
            r.append(it)
        self.trivia(r)
        return r

    def drawing(self):
        self.feat("drawing")
        name = f"image{len(self.images) + 1}.{self.r.choice(['png', 'jpeg', 'emf', 'JPG', 'Png', 'tiff'])}"
        kind = self.r.random()
        blip_attrs = {}
        if kind < 0.75:
            if self.images and self.p(self.k.image_same_basename):
                # a second image part with the base name of an earlier one, in another directory
                # (outside C11's "file names being distinct"; inside C19's image-folder clause)
                base = self.r.choice(sorted(self.images)).rsplit("/", 1)[-1]
                if f"media2/{base}" not in self.images:
                    name = f"media2/{base}"
                    self.feat("image_same_basename")
            self.images[name] = self.payload()
            blip_attrs["r:embed"] = self.add_rel("image", name if name.startswith("media2/") else f"media/{name}")
        elif kind < 0.85:
            blip_attrs["r:embed"] = "rId999"  # dangling
            if self.cur_part != "document" and self.p(0.6):
                blip_attrs["r:embed"] = self.dangling_doc_id()
            self.feat("image_dangling")
        else:
            blip_attrs["r:link"] = self.add_rel("image", "http://example.com/x.png", True)
            self.feat("image_linked")
        docpr = {"id": "1", "name": "Picture 1"}
        if self.p(0.5):
            d = self.r.choice(["A picture", "alt", "desc"])
            if self.p(self.k.alt_text_markup):
                d = self.r.choice(["Tom & Jerry", "a<b", "x>y"])
                self.feat("alt_text_markup")
            docpr["descr"] = d
            self.feat("alt_text")
        blip = self.E("a:blip", blip_attrs)
        pic = self.E("pic:pic", {}, self.E("pic:blipFill", {}, blip))
        g = self.E("a:graphic", {}, self.E("a:graphicData", {"uri": self.ns["pic"]}, pic))
        if kind >= 0.85 and self.p(0.5):
            # a chart / shape: a drawing with (usually) alt text but no picture at all
            g = self.E("a:graphic", {}, self.E("a:graphicData", {"uri": "http://schemas.openxmlformats.org/drawingml/2006/chart"}))
            docpr.setdefault("descr", "chart")
            self.feat("alt_text")
            self.feat("drawing_without_blip")
        inline = self.E("wp:inline", {}, self.E("wp:extent", {"cx": "1", "cy": "1"}),
                        self.E("wp:docPr", docpr), g)
        return self.E("w:drawing", {}, inline)

    def pict(self):
        self.feat("pict")
        attrs = {}
        if self.p(0.8):
            name = f"image{len(self.images) + 1}.wmf"
            self.images[name] = self.payload()
            attrs["r:id"] = self.add_rel("image", f"media/{name}")
        attrs["o:title"] = ""
        shape = self.E("v:shape", {"id": "s1", "style": "width:1pt"}, self.E("v:imagedata", attrs))
        return self.E("w:pict", {}, shape)

    def payload(self) -> bytes:
        c = self.r.random()
        if c < 0.1:
            return b""
        if c < 0.2:
            return b"PK\x03\x04" + bytes(self.r.randrange(256) for _ in range(20))
        if c < 0.3:
            return b"<?xml version='1.0'?><a/>"
        return bytes(self.r.randrange(256) for _ in range(self.r.choice([1, 10, 100, 3000])))

    def form_field(self):
        if self.p(0.5):
            self.feat("checkbox")
            kids = [self.E("w:sizeAuto")]
            vals = ["0", "1", "true", "false"]
            if self.p(self.k.checkbox_onoff):
                vals = ["on", "off"]
                self.feat("checkbox_onoff")
            if self.p(0.7):
                kids.append(self.E("w:default", {"w:val": self.r.choice(vals)} if self.p(0.8) else {}))
            if self.p(0.6):
                kids.append(self.E("w:checked", {"w:val": self.r.choice(vals)} if self.p(0.6) else {}))
            ff = self.E("w:ffData", {}, self.E("w:name", {"w:val": "Check1"}), self.E("w:checkBox", {}, *kids))
        else:
            self.feat("ddlist")
            n = self.r.randint(1, 4)
            if self.p(self.k.ddlist_empty):
                n = 0
                self.feat("ddlist_empty")
            kids = []
            if self.p(0.6) and n:
                kids.append(self.E("w:result", {"w:val": str(self.r.randrange(n))}))
            for i in range(n):
                ev = self.r.choice(["one", "two words", f"opt{i}"])
                if self.p(self.k.ddlist_markup):
                    ev = self.r.choice(["t&o", "<3>"])
                    self.feat("ddlist_markup")
                kids.append(self.E("w:listEntry", {"w:val": ev}))
            ff = self.E("w:ffData", {}, self.E("w:ddList", {}, *kids))
        return self.E("w:fldChar", {"w:fldCharType": "begin"}, ff)

    def textbox(self):
        self.feat("nested_par")
        self.depth += 1
        # paragraphs of a text box may again hold a text box (up to three levels)
        content = self.E("w:txbxContent", {}, *[self.paragraph(simple=True, allow_nested=self.depth < 3 and self.p(0.5))
                                                  for _ in range(self.r.randint(1, 2))])
        self.depth -= 1
        if self.p(0.35):
            # a styled paragraph inside the text box (its host paragraph may have no w:pPr at all:
            # round-5 seeds C05-gather-sub-vals-descendants, C07-pstyle-from-descendants)
            inner = content[0]
            ppr = inner.find(self.q("w", "pPr"))
            if ppr is None:
                ppr = self.E("w:pPr", {})
                inner.insert(0, ppr)
            if ppr.find(self.q("w", "pStyle")) is None:
                ppr.insert(0, self.E("w:pStyle", {"w:val": self.r.choice(["Heading2", "Heading3", "Quote"])}))
                self.feat("pstyle")
                self.feat("styled_textbox_par")
        return self.E("w:pict", {}, self.E("v:shape", {"id": "tb"}, self.E("v:textbox", {}, content)))

    def math(self):
        self.feat("math")
        t = self.r.choice(["x", "a+b", "E=mc2", "π"])
        if self.p(self.k.math_markup):
            t = self.r.choice(["a<b", "p&q"])
            self.feat("math_markup")
        mr = self.E("m:r", {}, self.E("m:t", {}, text=t))
        om = self.E("m:oMath", {}, mr)
        if self.p(0.4):
            om.append(self.E("m:r", {}, self.E("m:t", {}, text="y")))
        return om if self.p(0.6) else self.E("m:oMathPara", {}, om)

    # ----------------------------------------------------------- hyperlink
    def hyperlink(self):
        self.feat("hyperlink")
        attrs = {}
        c = self.r.random()
        if c < 0.6:
            tgt = self.r.choice(["http://example.com/", "https://a.b/c?d=e&f=g", "mailto:x@y.z", "",
                                 "https://example.com/app/#/settings"])   # a target that already holds a fragment
            seen = self.link_rids.setdefault(self.cur_part, [])
            if seen and self.p(0.35):
                # Word reuses one relationship for all links to one target: the same id with
                # another (or no) anchor, elsewhere in the part
                attrs["r:id"] = self.r.choice(seen)
                self.feat("link_rid_reused")
            else:
                attrs["r:id"] = self.add_rel("hyperlink", tgt, True)
                seen.append(attrs["r:id"])
            self.feat("link_resolved")
            if self.p(0.3):
                attrs["w:anchor"] = self.r.choice(["top", "sec_1"])
                self.feat("link_anchor_too")
        elif c < 0.9:
            attrs["w:anchor"] = self.r.choice(["_Toc1", "bm"])
            self.feat("link_anchor_only")
        else:
            attrs["w:tooltip"] = "tip"
        if self.p(self.k.link_dangling):
            # an id this part does not define; outside the main document it is often one that
            # the main document's relationships DO define (ids are per part)
            attrs["r:id"] = "rId777"
            if self.cur_part != "document" and self.p(0.7):
                attrs["r:id"] = self.dangling_doc_id()
                self.feat("link_dangling_doc_id")
            self.feat("link_dangling")
        if self.p(0.3):
            attrs["w:history"] = "1"
        h = self.E("w:hyperlink", attrs)
        n = self.r.choice([1, 1, 2, 3])
        mixed = self.p(self.k.link_mixed_format)
        pr0 = self.rpr()
        for i in range(n):
            pr = self.rpr() if mixed else (None if pr0 is None else etree.fromstring(etree.tostring(pr0)))
            r = self.E("w:r")
            if pr is not None:
                r.append(pr)
            r.append(self.E("w:t", {}, text=self.text() or "link"))
            if self.p(self.k.textbox_in_link) and self.depth == 0 and self.in_cell == 0:
                # a text box anchored in the link's run
                r.append(self.textbox())
                self.feat("textbox_in_link")
            h.append(r)
            if self.p(0.2):
                h.append(self.E("w:proofErr", {"w:type": "spellStart"}))
        if mixed and n > 1:
            self.feat("link_mixed_format")
        if self.p(self.k.markers_in_link) and self.cur_part == "document":
            cid = str(len(self.comment_ids))
            self.comment_ids.append(cid)
            h.insert(0, self.E("w:commentRangeStart", {"w:id": cid}))
            h.append(self.E("w:commentRangeEnd", {"w:id": cid}))
            self.feat("markers_in_link")
        return h

    # ----------------------------------------------------------- paragraph
    def ppr(self, simple=False):
        kids = []
        heading = False
        if self.p(self.k.headings):
            st = self.r.choice(["Heading1", "Heading2", "Heading6", "Title", "ListParagraph", "Heading7", "heading1"])
            kids.append(self.E("w:pStyle", {"w:val": st}))
            heading = st in ("Heading1", "Heading2", "Heading6")
            self.feat("pstyle")
            if heading:
                self.feat("heading")
        if not simple and self.p(self.k.lists):
            self.feat("list_item")
            numid = self.r.choice(self.num_ids + ["99"]) if self.num_ids else "1"
            ilvl = str(self.r.choice([0, 0, 0, 1, 1, 2, 3]))
            np_kids = [self.E("w:ilvl", {"w:val": ilvl}), self.E("w:numId", {"w:val": numid})]
            if self.p(0.05):
                np_kids.pop(self.r.randrange(2))
            kids.append(self.E("w:numPr", {}, *np_kids))
        if self.p(self.k.tabstops_in_ppr):
            self.feat("tabstops_in_ppr")
            kids.append(self.E("w:tabs", {}, self.E("w:tab", {"w:val": "left", "w:pos": "720"})))
        if self.p(0.2):
            kids.append(self.E("w:jc", {"w:val": "center"}))
        if self.p(0.15):
            kids.append(self.E("w:rPr", {}, self.E("w:b")))
        if not kids and self.p(0.5):
            return None, False
        self.r.shuffle(kids)
        if self.p(0.12):
            # tracked change of the paragraph properties: the OLD properties (with their own
            # pStyle) are recorded inside w:pPrChange, last child of w:pPr
            self.feat("ppr_change")
            kids.append(self.E("w:pPrChange", {"w:id": "11", "w:author": "a"},
                               self.E("w:pPr", {}, self.E("w:pStyle", {"w:val": self.r.choice(["Heading1", "Old"])}))))
        pr = self.E("w:pPr", {}, *kids)
        if self.p(self.k.xml_comment_in_props):
            self.feat("xml_comment_in_props")
            pr.insert(self.r.randint(0, len(pr)), etree.Comment("x"))
        return pr, heading

    def paragraph(self, simple=False, allow_nested=None):
        if allow_nested is None:
            allow_nested = not simple
        p = self.E("w:p", {"w:rsidR": "00112233"} if self.p(0.2) else {})
        pr, heading = self.ppr(simple)
        if pr is not None:
            p.append(pr)
        n = self.r.randint(0, self.k.max_runs)
        open_comments: list[str] = []
        base_rpr = self.rpr()
        last_link = False
        for _ in range(n):
            c = self.r.random()
            is_link = 0.5 <= c < 0.5 + self.k.links * 0.6
            if is_link and last_link and not self.p(self.k.link_mixed_format):
                # adjacent hyperlinks with one target are fused by the library; with
                # differently formatted runs that is the D7 class (edge stream only)
                p.append(self.E("w:r", {}, self.E("w:t", {"xml:space": "preserve"}, text=" ")))
            if is_link or c < 0.5 or c >= 0.95:
                last_link = is_link
            if c < 0.5:
                # often repeat the previous formatting so that runs merge
                pr_ = None
                if self.p(0.6) and base_rpr is not None:
                    pr_ = etree.fromstring(etree.tostring(base_rpr))
                    if self.p(0.3):
                        self.respell(pr_)
                elif self.p(0.5):
                    pr_ = self.rpr()
                    base_rpr = pr_ if pr_ is None else etree.fromstring(etree.tostring(pr_))
                r = self.run(rpr=pr_, allow_nested=allow_nested) if pr_ is not None else self.run(allow_nested=allow_nested)
                p.append(r)
            elif c < 0.5 + self.k.links * 0.6:
                p.append(self.hyperlink())
                if self.p(self.k.adjacent_links_diff_anchor):
                    self.feat("adjacent_links_diff_anchor")
                    rid = self.add_rel("hyperlink", "http://same/", True)
                    for anc in ("a1", "a2"):
                        p.append(self.E("w:hyperlink", {"r:id": rid, "w:anchor": anc},
                                        self.E("w:r", {}, self.E("w:t", {}, text=anc))))
            elif c < 0.72:
                p.append(self.E(self.r.choice(["w:proofErr", "w:bookmarkStart", "w:bookmarkEnd"]),
                                {"w:id": "0"}))
            elif c < 0.78 and self.k.comments and self.cur_part == "document" and (
                not heading or self.p(self.k.comment_in_heading)
            ) and self.p(self.k.comments * 2):
                if heading:
                    self.feat("comment_in_heading")
                cid = str(len(self.comment_ids))
                self.comment_ids.append(cid)
                open_comments.append(cid)
                p.append(self.E("w:commentRangeStart", {"w:id": cid}))
                self.feat("comment_range")
            elif c < 0.82 and open_comments:
                cid = open_comments.pop(self.r.randrange(len(open_comments)))
                p.append(self.E("w:commentRangeEnd", {"w:id": cid}))
                p.append(self.E("w:r", {}, self.E("w:commentReference", {"w:id": cid})))
            elif c < 0.86:
                tag = self.r.choice(["w:ins", "w:smartTag", "w:sdt", "w:fldSimple"])
                if tag == "w:sdt":
                    p.append(self.E("w:sdt", {}, self.E("w:sdtPr", {}, self.E("w:alias", {"w:val": "x"})),
                                    self.E("w:sdtContent", {}, self.run(allow_nested=False))))
                    self.feat("inline_sdt")
                else:
                    p.append(self.E(tag, {"w:id": "5"}, self.run(allow_nested=False)))
                    self.feat("inline_wrapper")
            elif c < 0.88:
                # deleted text usually resembles the text around it: the same atoms as the visible stretches, so that
                # a needle taken from a visible stretch often occurs in the invisible one too (D33); sometimes a
                # field code instead (w:instrText is not shown either)
                gone = "gone" if self.p(0.4) else (self.text() or "gone")
                if self.p(0.75):
                    p.append(self.E("w:del", {"w:id": "6"}, self.E("w:r", {}, self.E("w:delText", {}, text=gone))))
                    self.feat("del")
                else:
                    p.append(self.E("w:r", {}, self.E("w:fldChar", {"w:fldCharType": "begin"})))
                    p.append(self.E("w:r", {}, self.E("w:instrText", {"xml:space": "preserve"}, text=" XE \"" + gone + "\" ")))
                    p.append(self.E("w:r", {}, self.E("w:fldChar", {"w:fldCharType": "end"})))
                    self.feat("field_code")
            elif c < 0.88 + self.k.math * 0.5:
                p.append(self.math())
            elif c < 0.95 and self.p(self.k.unknown_elems):
                p.append(self.E("w14:unknownInline", {}, self.run(allow_nested=False)))
                self.feat("unknown_inline")
            else:
                p.append(self.run(allow_nested=allow_nested))
        # close comment ranges left open, here or in a later paragraph
        self._pending_comment_ends = getattr(self, "_pending_comment_ends", []) + open_comments
        if self._pending_comment_ends and self.p(0.6) and self.cur_part == "document" and (
            not heading or self.p(self.k.comment_in_heading)
        ):
            for cid in self._pending_comment_ends:
                p.append(self.E("w:commentRangeEnd", {"w:id": cid}))
            self._pending_comment_ends = []
        self.trivia(p)
        return p

    # --------------------------------------------------------------- tables
    def table_grid_before(self):
        """row 0 starts with a grid gap and has one cell (vMerge restart); row 1
        has two cells, the second continuing the merge"""
        self.feat("table")
        self.feat("grid_before")
        tbl = self.E("w:tbl", {}, self.E("w:tblPr"),
                     self.E("w:tblGrid", {}, self.E("w:gridCol", {"w:w": "1"}), self.E("w:gridCol", {"w:w": "1"})))
        r0 = self.E("w:tr", {}, self.E("w:trPr", {}, self.E("w:gridBefore", {"w:val": "1"})),
                    self.E("w:tc", {}, self.E("w:tcPr", {}, self.E("w:vMerge", {"w:val": "restart"})),
                           self.paragraph(simple=True)))
        r1 = self.E("w:tr", {}, self.E("w:tc", {}, self.paragraph(simple=True)),
                    self.E("w:tc", {}, self.E("w:tcPr", {}, self.E("w:vMerge")), self.E("w:p")))
        tbl.append(r0)
        tbl.append(r1)
        return tbl

    def table(self, nested=False):
        if self.p(self.k.grid_before) and not nested:
            return self.table_grid_before()
        self.feat("table")
        nrows = self.r.randint(1, 4)
        ncols = self.r.randint(1, 4)
        # tiling of the grid by rectangles
        owner = [[None] * ncols for _ in range(nrows)]
        rects = []
        if self.p(self.k.merged_cells):
            for _ in range(self.r.randint(1, 3)):
                r0, c0 = self.r.randrange(nrows), self.r.randrange(ncols)
                h, w = self.r.randint(1, nrows - r0), self.r.randint(1, ncols - c0)
                if all(owner[i][j] is None for i in range(r0, r0 + h) for j in range(c0, c0 + w)):
                    for i in range(r0, r0 + h):
                        for j in range(c0, c0 + w):
                            owner[i][j] = len(rects)
                    rects.append((r0, c0, h, w))
                    if h > 1 or w > 1:
                        self.feat("merged_cells")
                        if h > 1:
                            self.feat("vmerge")
                        if w > 1:
                            self.feat("gridspan")
        for i in range(nrows):
            for j in range(ncols):
                if owner[i][j] is None:
                    owner[i][j] = len(rects)
                    rects.append((i, j, 1, 1))
        tbl = self.E("w:tbl", {}, self.E("w:tblPr", {}, self.E("w:tblStyle", {"w:val": "TableGrid"})),
                     self.E("w:tblGrid", {}, *[self.E("w:gridCol", {"w:w": "100"}) for _ in range(ncols)]))
        gaps = self.p(self.k.grid_gaps) and ncols > 1
        for i in range(nrows):
            tr = self.E("w:tr")
            gb = ga = 0
            if gaps:
                # unmerged cells at the start / end of the row are left out: a leading / trailing grid gap
                # (round-8 seed C19-vmerge-gridspan-slice-copy needs a row above that is stored shorter)
                while gb < ncols - 1 and rects[owner[i][gb]][2:] == (1, 1) and self.p(0.4):
                    gb += 1
                while ga < ncols - 1 - gb and rects[owner[i][ncols - 1 - ga]][2:] == (1, 1) and self.p(0.3):
                    ga += 1
            trpr = []
            if gb:
                trpr.append(self.E("w:gridBefore", {"w:val": str(gb)}))
            if ga:
                trpr.append(self.E("w:gridAfter", {"w:val": str(ga)}))
            if gb or ga:
                self.feat("grid_gap")
            if trpr or self.p(0.2):
                tr.append(self.E("w:trPr", {}, *(trpr + ([self.E("w:cantSplit")] if self.p(0.5) else []))))
            j = gb
            while j < ncols - ga:
                r0, c0, h, w = rects[owner[i][j]]
                tcpr = []
                if self.p(0.4):
                    tcpr.append(self.E("w:tcW", {"w:w": "100", "w:type": "dxa"}))
                if w > 1:
                    tcpr.append(self.E("w:gridSpan", {"w:val": str(w)}))
                if h > 1:
                    if i == r0:
                        tcpr.append(self.E("w:vMerge", {"w:val": "restart"}))
                    elif self.p(self.k.vmerge_continue_val):
                        tcpr.append(self.E("w:vMerge", {"w:val": "continue"}))
                        self.feat("vmerge_continue_val")
                    else:
                        tcpr.append(self.E("w:vMerge"))
                tc = self.E("w:tc")
                self.in_cell += 1
                if self.p(0.08):
                    # tracked change of the cell properties (a cell that was split / un-merged with change tracking
                    # on): the OLD properties, with their own gridSpan / vMerge, are recorded inside w:tcPrChange,
                    # last child of w:tcPr; they say nothing about the current grid
                    # (round-9 seed C04-tcpr-iter-into-tcprchange)
                    oldp = [self.E("w:gridSpan", {"w:val": self.r.choice(["2", "3"])})] if self.p(0.6) else []
                    if self.p(0.5) or not oldp:
                        oldp.append(self.E("w:vMerge", {"w:val": self.r.choice(["restart", "continue"])}) if self.p(0.7)
                                    else self.E("w:vMerge"))
                    tcpr.append(self.E("w:tcPrChange", {"w:id": "13", "w:author": "a"}, self.E("w:tcPr", {}, *oldp)))
                    self.feat("tcpr_change")
                if tcpr or self.p(0.3):
                    pr = self.E("w:tcPr", {}, *tcpr)
                    if self.p(self.k.xml_comment_in_props):
                        self.feat("xml_comment_in_props")
                        pr.insert(0, etree.Comment("x"))
                    tc.append(pr)
                if h > 1 and i > r0:
                    if self.p(0.3):
                        # the empty paragraph of a continuation cell keeps the paragraph style of the
                        # cell it continues (what Word writes when a heading cell is merged downwards:
                        # round-6 seed C19-continuation-copy-only-if-no-text)
                        self.feat("styled_continuation_par")
                        tc.append(self.E("w:p", {}, self.E("w:pPr", {}, self.E(
                            "w:pStyle", {"w:val": self.r.choice(["Heading1", "Heading2", "Title"])}))))
                    elif self.p(0.25):
                        # a continuation cell that shows nothing but holds text the extraction does not show (a tracked
                        # deletion, a field code): still a continuation (round-10 seed
                        # C04-continuation-with-invisible-text-not-merged)
                        inv = (self.E("w:del", {"w:id": "7"}, self.E("w:r", {}, self.E("w:delText", {}, text="old"))) if self.p(0.5)
                               else self.E("w:r", {}, self.E("w:instrText", {}, text=" MERGEFIELD x ")))
                        tc.append(self.E("w:p", {}, inv))
                        self.feat("continuation_with_invisible_text")
                    else:
                        tc.append(self.E("w:p"))
                elif self.p(self.k.cell_without_par):
                    self.feat("cell_without_par")
                else:
                    if self.p(self.k.nested_tables) and not nested and self.depth < 1:
                        self.feat("nested_table")
                        self.depth += 1
                        nt = self.table(nested=True)
                        self.depth -= 1
                        if not tcpr and self.p(0.6):
                            # the outer cell has no w:tcPr of its own while the nested table's first
                            # cell spans two columns: properties must not be taken from descendants
                            for old_pr in tc.findall(self.q("w", "tcPr")):
                                tc.remove(old_pr)
                            first = nt.find(self.q("w", "tr") + "/" + self.q("w", "tc"))
                            if first is not None:
                                fp = first.find(self.q("w", "tcPr"))
                                if fp is None:
                                    fp = self.E("w:tcPr")
                                    first.insert(0, fp)
                                if fp.find(self.q("w", "gridSpan")) is None and fp.find(self.q("w", "vMerge")) is None:
                                    fp.append(self.E("w:gridSpan", {"w:val": "2"}))
                                self.feat("nested_first_cell_span")
                        tc.append(nt)
                        tc.append(self.paragraph())
                    elif self.p(self.k.sdt_in_table):
                        self.feat("sdt_in_table")
                        inner = [self.paragraph()]
                        if self.p(0.4):
                            # a nested content control after the paragraph (D31: raised IndexError
                            # in a horizontally merged cell with duplicate_merged_cells=True)
                            self.feat("sdt_nested_in_cell")
                            inner.append(self.E("w:sdt", {}, self.E("w:sdtPr"),
                                                self.E("w:sdtContent", {}, self.paragraph())))
                        tc.append(self.E("w:sdt", {}, self.E("w:sdtPr"), self.E("w:sdtContent", {}, *inner)))
                    else:
                        for _ in range(self.r.choice([1, 1, 1, 2])):
                            tc.append(self.paragraph())
                self.in_cell -= 1
                tr.append(tc)
                j += w
            tbl.append(tr)
            if self.p(0.12):
                # range markup between two rows (Word writes bookmarks there): a row's previous
                # sibling is then not a row (round-7 seed C04-vmerge-follows-only-merged-cell-above)
                self.feat("bookmark_between_rows")
                tbl.append(self.E("w:bookmarkStart", {"w:id": "5", "w:name": "r"}))
                tbl.append(self.E("w:bookmarkEnd", {"w:id": "5"}))
        return tbl

    # ---------------------------------------------------------------- blocks
    def blocks(self, n=None):
        out = []
        n = self.r.randint(0, self.k.max_blocks) if n is None else n
        for _ in range(n):
            c = self.r.random()
            if c < self.k.tables:
                out.append(self.table())
            elif c < self.k.tables + 0.06:
                self.feat("block_sdt")
                out.append(self.E("w:sdt", {}, self.E("w:sdtPr", {}, self.E("w:id", {"w:val": "9"})),
                                  self.E("w:sdtContent", {}, *self.blocks(self.r.randint(1, 2)))))
            elif c < self.k.tables + 0.1 and self.p(self.k.unknown_elems * 2):
                self.feat("unknown_block")
                out.append(self.E("w:customXml", {"w:element": "x"}, *self.blocks(self.r.randint(0, 2))))
            elif c < self.k.tables + 0.12:
                out.append(self.E("w:bookmarkStart", {"w:id": "3", "w:name": "b"}))
            else:
                out.append(self.paragraph())
        return out

    def body_part(self, part: str, root_tag: str):
        self.cur_part = part
        root = etree.Element(self.q("w", root_tag), nsmap={k: v for k, v in self.ns.items()})
        if root_tag == "document":
            body = self.E("w:body", {}, *self.blocks())
            if getattr(self, "_pending_comment_ends", []):
                p = self.E("w:p")
                for cid in self._pending_comment_ends:
                    p.append(self.E("w:commentRangeEnd", {"w:id": cid}))
                self._pending_comment_ends = []
                body.append(p)
            if self.p(0.7):
                body.append(self.E("w:sectPr", {}, self.E("w:pgSz", {"w:w": "1", "w:h": "1"})))
            root.append(body)
            self.trivia(body)
        elif self.p(self.k.bare_picture_part):
            # a part whose only picture carries no relationship attribute (r:id of v:imagedata and r:embed of
            # a:blip are optional) and which therefore need not declare the r prefix: the picture is skipped
            # (round-8 seed C11-image-marker-helper-unguarded-qn)
            if self.p(0.5):
                pic = self.E("w:pict", {}, self.E("v:shape", {"id": "s1", "style": "width:1pt"},
                                                   self.E("v:imagedata", {"croptop": "1f", "o:title": ""})))
            else:
                pic = self.E("w:drawing", {}, self.E("wp:inline", {}, self.E("wp:extent", {"cx": "1", "cy": "1"}),
                             self.E("wp:docPr", {"id": "1", "name": "Picture 1"}),
                             self.E("a:graphic", {}, self.E("a:graphicData", {"uri": self.ns["pic"]},
                                    self.E("pic:pic", {}, self.E("pic:blipFill", {}, self.E("a:blip")))))))
            root.append(self.E("w:p", {}, self.E("w:r", {}, self.E("w:t", {}, text=self.text() or "x"), pic)))
            etree.cleanup_namespaces(root)
            self.feat("picture_without_r_namespace")
            return root
        else:
            for b in self.blocks(self.r.randint(1, 3)):
                root.append(b)
        if self.p(self.k.no_r_namespace):
            etree.cleanup_namespaces(root)
            if "r" not in root.nsmap:
                self.feat("no_r_namespace")
        elif self.p(self.k.local_ns):
            root = localize_ns(root, keep=("w", "r"))
            self.feat("local_ns_declarations")
        return root

    def notes_part(self, kind: str):
        self.cur_part = kind + "s"
        root = etree.Element(self.q("w", kind + "s"), nsmap=dict(self.ns))
        if self.p(0.8):
            for i, ty in enumerate(["separator", "continuationSeparator"]):
                root.append(self.E(f"w:{kind}", {"w:type": ty, "w:id": str(i - 1)},
                                   self.E("w:p", {}, self.E("w:r", {}, self.E(f"w:{ty}")))))
        ids = self.note_refs[kind] or ([str(self.r.randint(1, 5))] if self.p(0.3) else [])
        for nid in ids:
            pars = []
            for j in range(self.r.choice([1, 1, 2])):
                p = self.paragraph(simple=True)
                if j == 0 and self.p(0.7):
                    p.insert(1 if len(p) and p[0].tag == self.q("w", "pPr") else 0,
                             self.E("w:r", {}, self.E(f"w:{kind}Ref")))
                pars.append(p)
            attrs = {"w:id": nid}
            if self.p(0.1):
                attrs["w:type"] = "normal"
            if self.p(0.08):
                # a note that starts with a block-level equation
                pars.insert(0, self.E("m:oMathPara", {}, self.E("m:oMath", {}, self.E("m:r", {}, self.E("m:t", {}, text="x")))))
                self.feat("note_starts_with_math")
            root.append(self.E(f"w:{kind}", attrs, *pars))
        self.feat(kind + "s_part")
        return root

    def comments_part(self):
        self.cur_part = "comments"
        root = etree.Element(self.q("w", "comments"), nsmap=dict(self.ns))
        ids = list(self.comment_ids)
        if len(ids) > 1 and self.p(0.4):
            self.r.shuffle(ids)
            self.feat("comments_shuffled")
        for cid in ids:
            attrs = {"w:id": cid, "w:author": self.r.choice(["Ann", "B & C", ""]), "w:initials": "A"}
            if self.p(0.7):
                attrs["w:date"] = "2024-01-02T03:04:05Z"
            root.append(self.E("w:comment", attrs,
                               *[self.paragraph(simple=True) for _ in range(self.r.choice([1, 1, 2]))]))
        self.feat("comments_part")
        return root

    def numbering_part_plain(self):
        """a small numbering part (ids 1..3, upper Roman) that consumes no randomness of the main stream"""
        root = etree.Element(self.q("w", "numbering"), nsmap=dict(self.ns))
        an = self.E("w:abstractNum", {"w:abstractNumId": "0"},
                    self.E("w:lvl", {"w:ilvl": "0"}, self.E("w:start", {"w:val": "4"}),
                           self.E("w:numFmt", {"w:val": "upperRoman"})))
        root.append(an)
        for i in (1, 2, 3):
            root.append(self.E("w:num", {"w:numId": str(i)}, self.E("w:abstractNumId", {"w:val": "0"})))
        return root

    def numbering_part(self):
        root = etree.Element(self.q("w", "numbering"), nsmap=dict(self.ns))
        fmts = ["decimal", "lowerLetter", "upperLetter", "lowerRoman", "upperRoman", "bullet",
                "ordinal", "none", "decimalZero"]
        n_abs = self.r.randint(1, 3)
        for a in range(n_abs):
            an = self.E("w:abstractNum", {"w:abstractNumId": str(a)})
            if self.p(0.3):
                an.append(self.E("w:multiLevelType", {"w:val": "hybridMultilevel"}))
            for lvl in range(self.r.choice([1, 3, 9])):
                kids = []
                if self.p(0.7):
                    st = self.r.choice(["1", "1", "2", "5", "30"])
                    if self.p(self.k.start_zero):
                        st = "0"
                        self.feat("start_zero")
                    kids.append(self.E("w:start", {"w:val": st}))
                if self.p(0.9):
                    kids.append(self.E("w:numFmt", {"w:val": self.r.choice(fmts)}))
                kids.append(self.E("w:lvlText", {"w:val": f"%{lvl + 1}."}))
                an.append(self.E("w:lvl", {"w:ilvl": str(lvl)}, *kids))
            root.append(an)
        for i in range(self.r.randint(1, 3)):
            nid = str(i + 1)
            self.num_ids.append(nid)
            an_ref = str(self.r.randrange(n_abs))
            if self.p(self.k.num_dangling_abstract):
                an_ref = "77"  # a list definition that is not there
                self.feat("num_dangling_abstract")
            num = self.E("w:num", {"w:numId": nid}, self.E("w:abstractNumId", {"w:val": an_ref}))
            if self.p(0.05):
                num = self.E("w:num", {"w:numId": nid})  # no w:abstractNumId: the list id stays undefined
                self.feat("num_without_abstract")
            elif self.p(0.2):
                # a per-list override of a level (w:lvlOverride / w:startOverride, what Word writes when a
                # list is restarted): the library does not read it, so it must not change anything - in
                # particular not for another list sharing the abstract definition (round-7 seed
                # C08-start-override-shared-level-objects)
                self.feat("lvl_override")
                num.append(self.E("w:lvlOverride", {"w:ilvl": str(self.r.choice([0, 0, 1]))},
                                  self.E("w:startOverride", {"w:val": self.r.choice(["1", "3", "7"])})))
            root.append(num)
        self.feat("numbering_part")
        if self.p(self.k.numbering_other_prefix):
            # the same part with the namespace bound to another prefix (what an ElementTree round trip
            # writes): schema-valid; the library then finds no list definitions and must degrade to '--',
            # not raise (round-7 seed C13-numbering-try-narrowed)
            self.feat("numbering_other_prefix")
            root2 = etree.Element(root.tag, nsmap={"ns0": self.ns["w"]})
            for k in list(root):
                root2.append(k)
            return root2
        return root


@dataclass
class Pkg:
    """An abstract package: XML parts as lxml trees, relationships, binaries."""

    parts: dict[str, etree._Element] = field(default_factory=dict)  # member name -> root
    rels: dict[str, list[tuple[str, str, str, bool]]] = field(default_factory=dict)  # rels member -> rows
    binaries: dict[str, bytes] = field(default_factory=dict)
    features: set[str] = field(default_factory=set)
    order: list[str] = field(default_factory=list)
    dir_entries: bool = False      # explicit folder entries, as zip -r and some converters write

    def rels_xml(self, rows) -> bytes:
        root = etree.Element(f"{{{REL_NS}}}Relationships", nsmap={None: REL_NS})
        for rid, typ, tgt, ext in rows:
            el = etree.SubElement(root, f"{{{REL_NS}}}Relationship")
            el.set("Id", rid)
            el.set("Type", typ)
            el.set("Target", tgt)
            if ext:
                el.set("TargetMode", "External")
        return etree.tostring(root, xml_declaration=True, encoding="UTF-8", standalone=True)

    def members(self) -> dict[str, bytes]:
        out: dict[str, bytes] = {}
        ct = etree.Element(f"{{{CT_NS}}}Types", nsmap={None: CT_NS})
        for ext, typ in (("rels", "application/vnd.openxmlformats-package.relationships+xml"),
                         ("xml", "application/xml"), ("png", "image/png")):
            d = etree.SubElement(ct, f"{{{CT_NS}}}Default")
            d.set("Extension", ext)
            d.set("ContentType", typ)
        out["[Content_Types].xml"] = etree.tostring(ct, xml_declaration=True, encoding="UTF-8", standalone=True)
        for name, rows in self.rels.items():
            out[name] = self.rels_xml(rows)
        for name, root in self.parts.items():
            out[name] = etree.tostring(root, xml_declaration=True, encoding="UTF-8", standalone=True)
        out.update(self.binaries)
        return out

    def to_bytes(self) -> bytes:
        bio = io.BytesIO()
        with zipfile.ZipFile(bio, "w", zipfile.ZIP_DEFLATED) as z:
            seen_dirs = set()
            for name, data in self.members().items():
                if self.dir_entries:
                    parts = name.split("/")[:-1]
                    for k in range(1, len(parts) + 1):
                        d = "/".join(parts[:k]) + "/"
                        if d not in seen_dirs:
                            seen_dirs.add(d)
                            z.writestr(zipfile.ZipInfo(d), b"")
                z.writestr(name, data)
        return bio.getvalue()


def gen_package(rng: random.Random, knobs: Knobs | None = None, ns=None) -> Pkg:
    """One random package in the canonical layout (word/document.xml, ...)."""
    g = Gen(rng, knobs, ns)
    k = g.k
    pkg = Pkg()
    has_numbering = g.p(0.6)
    if has_numbering:
        pkg.parts["word/numbering.xml"] = g.numbering_part()
    doc = g.body_part("document", "document")
    pkg.parts["word/document.xml"] = doc
    doc_rels = g.rels.setdefault("document", [])

    def doc_rid():
        g.cur_part = "document"
        return g.new_rid()
    part_rels: dict[str, str] = {}
    odd_names = g.p(0.3)
    pools = {"header": ["aHeader.xml", "zzHeader.xml", "evenHeader.xml"],
             "footer": ["footer1.xml", "mFooter.xml", "bFooter.xml"]}
    for kind, tag in (("header", "hdr"), ("footer", "ftr")):
        for i in range(g.r.choice([0, 0, 1, 2])):
            name = f"{kind}{i + 1}.xml"
            if odd_names:
                # names whose path order interleaves headers and footers
                name = pools[kind][i]
                g.feat("odd_part_names")
            pkg.parts[f"word/{name}"] = g.body_part(name, tag)
            doc_rels.append((doc_rid(), REL_T + kind, name, False))
            if g.p(k.shared_part):
                # the same part related twice (e.g. as default and as first-page header)
                doc_rels.append((doc_rid(), REL_T + kind, name, False))
                g.feat("shared_part")
            part_rels[name] = f"word/_rels/{name}.rels"
            g.feat(kind + "_part")
    for kind in ("footnote", "endnote"):
        if g.note_refs[kind] or g.p(k.notes * 0.5):
            name = f"{kind}s.xml"
            pkg.parts[f"word/{name}"] = g.notes_part(kind)
            doc_rels.append((doc_rid(), REL_T + kind + "s", name, False))
            part_rels[kind + "s"] = f"word/_rels/{name}.rels"
    if g.comment_ids or g.p(0.1):
        if g.p(0.95):
            pkg.parts["word/comments.xml"] = g.comments_part()
            doc_rels.append((doc_rid(), REL_T + "comments", "comments.xml", False))
            part_rels["comments"] = "word/_rels/comments.xml.rels"
    if has_numbering and g.p(k.glossary):
        # Word's glossary document (building blocks) with its own numbering part, which defines the same
        # list ids differently: the lists of the body are those of word/numbering.xml, whatever the order of
        # the archive's members (round-7 seed C18-numbering-part-by-first-relationship)
        g.feat("glossary")
        gdoc = etree.Element(g.q("w", "glossaryDocument"), nsmap=dict(g.ns))
        pkg.parts["word/glossary/document.xml"] = gdoc
        gnum = g.numbering_part_plain()
        pkg.parts["word/glossary/numbering.xml"] = gnum
        doc_rels.append((doc_rid(), REL_T + "glossaryDocument", "glossary/document.xml", False))
        pkg.rels["word/glossary/_rels/document.xml.rels"] = [("rId1", REL_T + "numbering", "numbering.xml", False)]
    if has_numbering:
        doc_rels.append((doc_rid(), REL_T + "numbering", "numbering.xml", False))
        if g.p(0.05):
            # the relationship is listed but the part is not in the archive
            del pkg.parts["word/numbering.xml"]
            g.feat("numbering_part_missing")
    doc_rels.append((doc_rid(), REL_T + "styles", "styles.xml", False))
    pkg.parts["word/styles.xml"] = etree.Element(g.q("w", "styles"), nsmap={"w": g.ns["w"]})
    # relationships
    root_rels = [("rId1", REL_T + "officeDocument", "word/document.xml", False)]
    if g.p(0.8):
        cp = etree.Element(f"{{{CP_NS}}}coreProperties", nsmap={"cp": CP_NS, "dc": DC_NS})
        for nm, val in (("title", "T & t"), ("creator", "me")):
            e = etree.SubElement(cp, f"{{{DC_NS}}}{nm}")
            e.text = val
        e = etree.SubElement(cp, f"{{{CP_NS}}}revision")
        e.text = "3"
        if g.p(0.3):
            etree.SubElement(cp, f"{{{CP_NS}}}keywords")
        pkg.parts["docProps/core.xml"] = cp
        root_rels.append(("rId2", REL_PKG + "core-properties", "docProps/core.xml", False))
        g.feat("core_props")
    pkg.rels["_rels/.rels"] = root_rels
    pkg.rels["word/_rels/document.xml.rels"] = doc_rels
    for part, rows in g.rels.items():
        if part == "document" or not rows:
            continue
        pkg.rels[part_rels[part]] = rows
    for name, data in g.images.items():
        pkg.binaries[f"word/{name}" if name.startswith("media2/") else f"word/media/{name}"] = data
    if g.p(0.2):
        pkg.binaries["customXml/item1.xml"] = b"<x/>"
    if g.p(0.12):
        # unrelated members whose names differ from a content / relationships part only in case
        pkg.binaries["word/Document.xml"] = b"<other/>"
        pkg.binaries["word/_rels/Document.xml.RELS"] = b"not a relationships part"
        g.feat("case_variant_members")
    if g.p(0.2):
        pkg.dir_entries = True
        g.feat("dir_entries")
    pkg.features = g.features
    return pkg
