"""Observation of /repo's behaviour on one content part, in the same jt shape
that Driver.observe_part prints."""
from __future__ import annotations

import warnings

from common import EXN_CODES, Interner, OS, S, enc_tree, encZ, lift


def elem_path(elem, root):
    """[copy_flag, path] of a Par.elem relative to the part root."""
    if elem is None:
        return []
    path = []
    cur = elem
    while cur is not root:
        parent = cur.getparent()
        if parent is None:
            return [1, []]  # detached copy (copy.deepcopy of a merged cell)
        path.append(parent.index(cur))
        cur = parent
    return [0, list(reversed(path))]


def enc_par(par, root):
    lin = par.lineage
    assert lin[0] == "document"
    lp = par.list_position
    return [
        [S(x) for x in par.run_strings],
        [S(x) for x in par.html_style],
        S(par.style),
        [OS(x) for x in lin[1:]],
        [OS(lp[0]), list(lp[1])],
        elem_path(par.elem, root),
    ]


def enc_nested(x, leaf):
    if isinstance(x, list):
        return [0, [enc_nested(y, leaf) for y in x]]
    return [1, leaf(x)]


def observe_file(f, intern=None):
    """f: docx2python.docx_reader.File -> [0, obs] | [1, exn code]"""
    from docx2python.depth_collector import get_par_strings
    from docx2python.docx_output import _join_runs

    with warnings.catch_warnings():
        warnings.simplefilter("ignore")
        try:
            root = f.root_element
            dc = f.depth_collector
            pars = dc.tree
            runs = get_par_strings(pars)
            plain = _join_runs(runs)
            obs = [
                enc_tree(root, intern),
                enc_nested(pars, lambda p: enc_par(p, root)),
                enc_nested(runs, S),
                enc_nested(plain, S),
                [[S(k), a, b] for k, (a, b) in dc.comment_ranges.items()],
            ]
            return [0, obs]
        except Exception as ex:  # noqa: BLE001
            return [1, EXN_CODES.get(type(ex).__name__, 98)], ex
    

def model_case_for_file(reader, f, raw_root, intern=None):
    """kind-1 case: [1, html, dup, rels, numtbl, rnode]"""
    html = 1 if reader.xml2html_format else 0
    dup = 1 if reader.duplicate_merged_cells else 0
    with warnings.catch_warnings():
        warnings.simplefilter("ignore")
        rels = [[S(k), S(v)] for k, v in f.rels.items()]
        numtbl = [
            [S(k), [[OS(a.fmt), [] if a.start is None else [encZ(a.start)]] for a in v]]
            for k, v in reader.numId2Attrs.items()
        ]
    return [1, html, dup, rels, numtbl, lift(raw_root, intern)]
