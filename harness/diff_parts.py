"""Differential check model vs /repo at content-part level."""
from __future__ import annotations

import io
import random
import sys
import time
import warnings

import common
from common import Model, assert_repo_under_test

assert_repo_under_test()
from lxml import etree  # noqa: E402

import docgen  # noqa: E402
import impl_part  # noqa: E402
from docx2python.docx_reader import DocxReader  # noqa: E402


def canon(obs):
    """Drop paths of copied paragraphs (the implementation's copies are
    detached elements)."""
    def fix_par(rec):
        if rec[5] and rec[5][0] == 1:
            rec = rec[:5] + [[1, []]]
        return rec

    def walk(x):
        if x[0] == 0:
            return [0, [walk(y) for y in x[1]]]
        return [1, fix_par(x[1])]

    if obs[0] != 0:
        return obs
    o = obs[1]
    return [0, [o[0], walk(o[1]), o[2], o[3], o[4]]]


def run_docx(model, data: bytes, html: bool, dup: bool):
    """yield (part path, impl obs, model obs)"""
    reader = DocxReader(io.BytesIO(data), html=html, duplicate_merged_cells=dup)
    try:
        for f in reader.files_of_type():
            raw = etree.fromstring(reader.zipf.read(f.path))
            intern = common.Interner()
            try:
                case = impl_part.model_case_for_file(reader, f, raw, intern)
            except Exception as ex:  # noqa: BLE001
                yield f.path, ("envfail", repr(ex)), None
                continue
            r = impl_part.observe_file(f, intern)
            exn = None
            if isinstance(r, tuple):
                r, exn = r
            m = model.run(case)
            yield f.path, (canon(r), exn), canon(m)
    finally:
        reader.close()


def first_diff(a, b, path=()):
    if type(a) != type(b):
        return path, a, b
    if isinstance(a, list):
        if len(a) != len(b):
            return path + ("len",), len(a), len(b)
        for i, (x, y) in enumerate(zip(a, b)):
            d = first_diff(x, y, path + (i,))
            if d:
                return d
        return None
    return None if a == b else (path, a, b)


def main():
    n = int(sys.argv[1]) if len(sys.argv) > 1 else 200
    seed = int(sys.argv[2]) if len(sys.argv) > 2 else 1
    model = Model()
    rng = random.Random(seed)
    t0 = time.time()
    stats = {"parts": 0, "agree": 0, "exn": 0}
    bad = 0
    for i in range(n):
        sub = rng.randrange(1 << 30)
        kn = docgen.Knobs()
        if len(sys.argv) > 3:
            import dataclasses
            for fld in dataclasses.fields(kn):
                if fld.type == 'float' and getattr(kn, fld.name) == 0.0:
                    setattr(kn, fld.name, float(sys.argv[3]))
        pkg = docgen.gen_package(random.Random(sub), kn)
        data = pkg.to_bytes()
        for html in (False, True):
            for dup in (True, False):
                for path, (impl, exn), mod in run_docx(model, data, html, dup):
                    stats["parts"] += 1
                    if impl == "envfail":
                        print("ENVFAIL", sub, path, exn)
                        continue
                    if impl[0] == 1:
                        stats["exn"] += 1
                    if impl == mod:
                        stats["agree"] += 1
                    else:
                        bad += 1
                        if bad <= 5:
                            d = first_diff(impl, mod)
                            print(f"DISAGREE seed={sub} html={html} dup={dup} part={path} exn={exn!r}")
                            print("   at", d[0] if d else None)
                            print("   impl:", str(d[1])[:300] if d else None)
                            print("   model:", str(d[2])[:300] if d else None)
                            open(f"/tmp/bad_{sub}.docx", "wb").write(data)
    print(stats, "disagreements", bad, f"{time.time()-t0:.1f}s")


if __name__ == "__main__":
    main()
