"""Common machinery of the checks: build, proof-obligation audit, parallel
sweeps, replay files, evidence, verdict protocol (DESIGN.md section 5)."""
from __future__ import annotations

import hashlib
import json
import multiprocessing as mp
import os
import re
import subprocess
import sys
import time
import traceback
from pathlib import Path

VERIF = Path(__file__).resolve().parent.parent
COQ = VERIF / "coq"
REPLAYS = VERIF / "replays"
EVIDENCE = VERIF / "evidence"
FINDINGS_FILE = VERIF / "known_findings.json"
WORKERS = int(os.environ.get("VERIF_WORKERS", "16"))

TRUSTED_BASE = [
    "Coq 8.16.1 kernel (coqc, full .vo build; vm_compute used, native_compute not used)",
    "axioms: none (every property theorem must print 'Closed under the global context')",
    "tools/gen_tables.py: fail-closed ast translator of the data tables in /repo (Tags, content/mergeable tag sets, XML2HTML_FORMATTER and its one-line formatters, ROMAN_SUBS, numFmt table, check-box table, CONTENT_FILE_TYPES, save's overwrite list, TagRunner method names)",
    "extraction: Require Extraction + ExtrOcamlBasic only (Extract Inductive bool/option/unit/list/prod/sumbool/sumor, Extract Inlined Constant andb/orb); N, positive, Z, nat stay inductive; no Extract Constant of ours",
    "coq/extract/driver.ml (40 lines: chars <-> extracted N, line I/O) and OCaml 4.13.1",
    "correspondence harness (generators, lxml->rnode lifting restricted to the w/r namespace bindings, canonicalisers, oracles) - sampling that ties the hand-written model to /repo, not a proof",
    "modelled, not verified: lxml (parse/serialise, prefix, nsmap, iteration), zipfile, pathlib/os.path.split, re, copy.deepcopy, dict order, CPython",
]

FORBIDDEN = re.compile(
    r"\b(Admitted|admit|Axiom|Axioms|Parameter|Parameters|Conjecture|Hypothesis|Variable)\b"
    r"|Unset\s+Guard|bypass_check|type-in-type|impredicative-set|Admit\s+Obligations"
)


# --------------------------------------------------------------------- build
def build() -> tuple[int, str]:
    """Run tools/build.sh. rc 0 ok, 2 translator, 3 coq, 4 driver."""
    p = subprocess.run([str(VERIF / "tools" / "build.sh")], capture_output=True, text=True)
    return p.returncode, (p.stderr or "") + (p.stdout or "")


def strip_comments(text: str) -> str:
    out, depth, i = [], 0, 0
    while i < len(text):
        if text.startswith("(*", i):
            depth += 1
            i += 2
        elif text.startswith("*)", i) and depth:
            depth -= 1
            i += 2
        else:
            if depth == 0:
                out.append(text[i])
            i += 1
    return "".join(out)


def audit_sources() -> list[str]:
    """Forbidden vernacular anywhere in the development (comments ignored).
    `Variable`/`Hypothesis` are allowed inside a Section only."""
    bad = []
    for f in sorted(COQ.rglob("*.v")):
        if "extract/build" in str(f):
            continue
        text = strip_comments(f.read_text())
        in_section = 0
        for ln, line in enumerate(text.splitlines(), 1):
            if re.match(r"\s*Section\b", line):
                in_section += 1
            if re.match(r"\s*End\b", line) and in_section:
                in_section -= 1
            for m in FORBIDDEN.finditer(line):
                w = m.group(0)
                if w in ("Variable", "Hypothesis") and in_section:
                    continue
                bad.append(f"{f.relative_to(VERIF)}:{ln}: {w}")
    return bad


def compile_property(prop: str) -> dict:
    """coqc properties/<prop>.v, parse `Print Assumptions` output."""
    src = COQ / "properties" / f"{prop}.v"
    res = {"file": str(src.relative_to(VERIF)), "ok": False, "theorems": [], "assumptions": {},
           "error": None, "cmd": ""}
    if not src.exists():
        res["error"] = "no property file"
        return res
    text = strip_comments(src.read_text())
    thms = re.findall(r"^\s*Theorem\s+(\w+)", text, flags=re.M)
    prints = re.findall(r"^\s*Print Assumptions\s+(\w+)", text, flags=re.M)
    res["theorems"] = thms
    cmd = ["timeout", "900", "coqc", "-Q", "model", "D2P", "-Q", "gen", "D2P", "-Q", "proofs", "D2P",
           "-Q", "properties", "D2P", f"properties/{prop}.v"]
    res["cmd"] = "cd /verif/coq && " + " ".join(cmd)
    p = subprocess.run(cmd, cwd=COQ, capture_output=True, text=True)
    if p.returncode != 0:
        res["error"] = (p.stderr or p.stdout)[-2000:]
        return res
    if sorted(thms) != sorted(prints):
        res["error"] = f"theorems {thms} and Print Assumptions {prints} differ"
        return res
    # only `Theorem ... Proof. exact <lemma>. Qed.` is allowed in a property file
    bodies = re.findall(r"Proof\.(.*?)Qed\.", text, flags=re.S)
    for b in bodies:
        if not re.fullmatch(r"\s*exact\s+[@\w.']+\s*\.\s*", b):
            res["error"] = f"property file proof is not a bare `exact lemma.`: {b.strip()[:80]}"
            return res
    if len(bodies) != len(thms) or re.search(r"\b(Lemma|Definition|Fixpoint|Example|Instance)\b", text):
        res["error"] = "property file contains something else than Theorem/Proof exact/Print Assumptions"
        return res
    chunks = re.split(r"(?=Closed under the global context|Axioms:)", p.stdout)
    chunks = [c.strip() for c in chunks if c.strip()]
    if len(chunks) != len(prints):
        res["error"] = f"expected {len(prints)} assumption reports, got {len(chunks)}"
        return res
    for name, c in zip(prints, chunks):
        res["assumptions"][name] = c
    res["ok"] = True
    return res


def open_assumptions(comp: dict) -> list[str]:
    return [f"{k}: {v}" for k, v in comp["assumptions"].items()
            if not v.startswith("Closed under the global context")]


# ------------------------------------------------------------------- sweeps
def sub_seed(seed: int, i: int, salt: str = "") -> int:
    h = hashlib.sha256(f"{seed}:{i}:{salt}".encode()).digest()
    return int.from_bytes(h[:6], "big")


_worker_fn = None
_worker_state = None

# ---- line coverage of /repo's package by the correspondence / oracle runs (sys.monitoring, 3.12+):
# which lines of the implementation the checks actually execute - evidence of the tie's reach
COVERED: set = set()          # (relative file name, line) seen by the parent
_cov_new: list = []           # per worker: lines first seen since the last result was returned
_cov_on = False


def _repo() -> Path:
    return Path(os.environ.get("D2P_REPO", "/repo"))


def _cov_start():
    global _cov_on
    mon = getattr(sys, "monitoring", None)
    if mon is None or _cov_on:
        return
    pkg = str((_repo() / "docx2python").resolve()) + os.sep
    tool = mon.COVERAGE_ID
    try:
        mon.use_tool_id(tool, "d2p-verif")
    except ValueError:
        return

    def on_line(code, line):
        fn = code.co_filename
        if fn.startswith(pkg):
            _cov_new.append((fn[len(pkg):], line))
        return mon.DISABLE

    mon.register_callback(tool, mon.events.LINE, on_line)
    mon.set_events(tool, mon.events.LINE)
    _cov_on = True


def executable_lines() -> dict:
    """relative file name -> set of line numbers that carry code (from the compiled code objects)"""
    out = {}
    for f in sorted((_repo() / "docx2python").glob("*.py")):
        try:
            code = compile(f.read_text(), str(f), "exec")
        except SyntaxError:
            continue
        lines = set()
        stack = [code]
        while stack:
            c = stack.pop()
            # function bodies only (CO_OPTIMIZED): module and class bodies run at import time,
            # before the monitoring starts
            if c.co_flags & 0x1:
                first = c.co_firstlineno
                for _, _, ln in c.co_lines():
                    if ln is not None and ln != first:
                        lines.add(ln)
            stack.extend(k for k in c.co_consts if hasattr(k, "co_lines"))
        out[f.name] = lines
    return out


def coverage_summary() -> dict:
    ex = executable_lines()
    summ = {}
    for name, lines in ex.items():
        hit = {ln for (fn, ln) in COVERED if fn == name} & lines
        miss = sorted(lines - hit)
        summ[name] = {"executable": len(lines), "executed": len(hit), "not_executed": miss[:400]}
    tot = sum(v["executable"] for v in summ.values())
    hit = sum(v["executed"] for v in summ.values())
    return {"files": summ, "executable": tot, "executed": hit}


def _init_worker(fn_module: str, fn_name: str, repo: str):
    global _worker_fn, _worker_state
    sys.setrecursionlimit(10000)
    import importlib
    import warnings

    warnings.simplefilter("ignore")
    mod = importlib.import_module(fn_module)
    _worker_fn = getattr(mod, fn_name)
    import common

    _worker_state = {"model": common.Model()}
    try:
        _cov_start()
    except Exception:  # noqa: BLE001  (coverage is evidence only; an exception here would hang the pool)
        pass


def _run_one(arg):
    try:
        r = _worker_fn(_worker_state, arg)
        m = _worker_state.get("model") if isinstance(_worker_state, dict) else None
        if isinstance(r, dict) and m is not None and hasattr(m, "take_small"):
            x = m.take_small()
            if x:
                r["_xcheck"] = x
        if isinstance(r, dict) and _cov_new:
            r["_cov"] = list(_cov_new)
            _cov_new.clear()
        return r
    except Exception as ex:  # noqa: BLE001
        return {"harness_error": f"{type(ex).__name__}: {ex}", "arg": repr(arg)[:200],
                "tb": traceback.format_exc()[-1500:]}


def sweep(fn_module: str, fn_name: str, args: list, workers: int = WORKERS, chunksize: int = 4):
    """Run fn(state, arg) for every arg on a pool; each worker owns one model
    driver process.  Results come back in order."""
    if workers <= 1 or len(args) <= 2:
        _init_worker(fn_module, fn_name, "")
        try:
            results = [_run_one(a) for a in args]
        finally:
            _worker_state["model"].close()
    else:
        ctx = mp.get_context("fork")
        with ctx.Pool(workers, initializer=_init_worker, initargs=(fn_module, fn_name, "")) as pool:
            results = pool.map(_run_one, args, chunksize=chunksize)
    for r in results:
        if isinstance(r, dict) and "_cov" in r:
            COVERED.update(tuple(x) for x in r.pop("_cov"))
    return results


# ------------------------------------------------------------------ findings
def load_findings(prop: str) -> list[dict]:
    if not FINDINGS_FILE.exists():
        return []
    data = json.loads(FINDINGS_FILE.read_text())
    return [f for f in data.get("findings", []) if f.get("property") == prop]


# -------------------------------------------------------------------- replay
def write_replay(prop: str, payload: dict) -> str:
    REPLAYS.mkdir(exist_ok=True)
    blob = json.dumps(payload, sort_keys=True, default=str)
    h = hashlib.sha256(blob.encode()).hexdigest()[:12]
    path = REPLAYS / f"{prop}-{h}.json"
    path.write_text(json.dumps(payload, indent=1, default=str))
    return str(path.relative_to(VERIF))


def coqchk_property(prop: str) -> dict:
    """Independent re-check of properties/<prop>.vo and everything it depends on with coqchk;
    `-o` prints the context summary (axioms, type-in-type, unsafe fixpoints, assumed positivity)."""
    cmd = ["timeout", "3000", "coqchk", "-o", "-silent", "-Q", "model", "D2P", "-Q", "gen", "D2P",
           "-Q", "proofs", "D2P", "-Q", "properties", "D2P", f"D2P.{prop}"]
    p = subprocess.run(cmd, cwd=COQ, capture_output=True, text=True)
    out = p.stdout + p.stderr
    summary = {}
    for key, pat in (("axioms", r"\* Axioms:(.*?)(?=\n\* |\Z)"),
                     ("type_in_type", r"relying on type-in-type:(.*?)(?=\n\* |\Z)"),
                     ("unsafe_fixpoints", r"relying on unsafe \(co\)fixpoints:(.*?)(?=\n\* |\Z)"),
                     ("assumed_positivity", r"positivity is assumed:(.*?)(?=\n\* |\Z)")):
        m = re.search(pat, out, flags=re.S)
        summary[key] = " ".join(m.group(1).split()) if m else "?"
    ok = p.returncode == 0 and all(v == "<none>" for v in summary.values())
    return {"ok": ok, "rc": p.returncode, "cmd": "cd /verif/coq && " + " ".join(cmd), **summary,
            "tail": "" if ok else out[-600:]}


# ------------------------------------------------------------------ evidence
def write_evidence(prop: str, tier: str, seed: int, t0: float, comp: dict | None, run: dict,
                   violations: int, extra: dict | None = None):
    EVIDENCE.mkdir(exist_ok=True)
    thms = comp["theorems"] if comp else []
    discharged = len([t for t in thms if comp and comp["assumptions"].get(t, "").startswith("Closed")])
    cov = {
        "obligations": max(len(thms), 1) if comp else 1,
        "discharged": discharged,
        "checker_cmd": (comp or {}).get("cmd", "") or "cd /verif && ./tools/build.sh",
        "trusted_base": TRUSTED_BASE,
        "theorems": thms,
        "print_assumptions": (comp or {}).get("assumptions", {}),
        "evaluations": run.get("evaluations", 0),
        "distinct_nontrivial": run.get("distinct_nontrivial", 0),
        "rule": run.get("rule", ""),
        "samples": run.get("samples", []),
    }
    for k, v in run.items():
        if k not in cov and k not in ("violations",):
            cov[k] = v
    if extra:
        cov.update(extra)
    ev = {
        "property_id": prop,
        "tier": tier,
        "seed": seed,
        "level": "proof",
        "coverage": cov,
        "assumptions": [
            "the hand-written Gallina model is tied to /repo by the correspondence run recorded in coverage (sampling)",
            "data tables are regenerated from /repo's source by tools/gen_tables.py on every run",
        ],
        "wall_s": round(time.time() - t0, 2),
        "violations": violations,
    }
    tmp = EVIDENCE / f"{prop}.json.tmp"
    tmp.write_text(json.dumps(ev, indent=1, default=str))
    tmp.replace(EVIDENCE / f"{prop}.json")


# ------------------------------------------------ vm_compute cross-check
def vm_crosscheck(prop: str, pairs: list, limit: int) -> dict:
    """Re-evaluate the smallest model cases inside Coq (`Eval vm_compute in
    run_line <input>`) and compare with what the extracted driver printed:
    checks extraction and the OCaml glue.  pairs: [(input line, output line)]."""
    pairs = sorted(set(pairs), key=lambda p: len(p[0]))[:limit]
    if not pairs:
        return {"checked": 0, "mismatches": []}
    out_dir = VERIF / "build"
    out_dir.mkdir(exist_ok=True)
    src = out_dir / f"xcheck_{prop}.v"
    L = ["From Coq Require Import List NArith.", "From D2P Require Import Str Driver.", "Import ListNotations.",
         "Open Scope N_scope."]
    for i, (inp, _) in enumerate(pairs):
        L.append(f"Definition c{i} : str := [{';'.join(str(ord(ch)) for ch in inp)}].")
        L.append(f"Eval vm_compute in (run_line c{i}).")
    src.write_text("\n".join(L) + "\n")
    p = subprocess.run(["timeout", "600", "coqc", "-Q", str(COQ / "model"), "D2P", "-Q", str(COQ / "gen"), "D2P", str(src)],
                       capture_output=True, text=True, cwd=out_dir)
    for ext in (".vo", ".vok", ".vos", ".glob"):
        (out_dir / f"xcheck_{prop}{ext}").unlink(missing_ok=True)
    if p.returncode != 0:
        return {"checked": 0, "mismatches": [f"coqc failed: {p.stderr[-300:]}"]}
    chunks = re.findall(r"=\s*\[(.*?)\]\s*:\s*str", p.stdout, flags=re.S)
    mism = []
    for i, ((inp, out), ch) in enumerate(zip(pairs, chunks)):
        got = "".join(chr(int(x)) for x in re.findall(r"\d+", ch))
        if got != out:
            mism.append({"case": inp[:200], "driver": out[:200], "vm_compute": got[:200]})
    if len(chunks) != len(pairs):
        mism.append(f"expected {len(pairs)} results, parsed {len(chunks)}")
    return {"checked": len(chunks), "mismatches": mism}
